#!/bin/sh
# run_mutant.sh <patch.diff> <PROPERTY> [extra ./check args]: run a check against a scratch copy of /repo with the patch applied.
# exit status = the check's; scratch copy (under /dev/shm) removed afterwards.
patch="$1"; prop="$2"; shift 2
s=$(mktemp -d /dev/shm/mutrun-XXXXXX)
cp -r /repo/src "$s"/
(cd "$s" && git apply "$patch") || { echo "patch does not apply"; rm -rf "$s"; exit 3; }
TCSIM_REPO="$s" /verif/check "$prop" --no-evidence "$@"
rc=$?
rm -rf "$s"
exit $rc
