#!/venv/bin/python
"""write_meta.py <matrix log>...: (re)write seeded/<id>/meta.json from matrix logs (later logs override earlier lines)"""
import json, os, re, sys
res = {}
for f in sys.argv[1:]:
    for l in open(f):
        m = re.match(r'(C\d+-\d+) (CAUGHT|MISSED)\s*(.*)', l)
        if m:
            res[m.group(1)] = (m.group(2), m.group(3).strip())
cross = {'C06-5': 'C05'}
rows = []
for d in sorted(os.listdir('/verif/seeded')):
    p = f'/verif/seeded/{d}'
    notes = open(p + '/notes.md').read()
    lines = [x.strip('# -*').strip() for x in notes.splitlines() if x.strip()]
    st, msg = res.get(d, ('?', ''))
    inv = re.match(r'(I-[\w-]+)', msg)
    pid = d.split('-')[0]
    rnd = 1 if int(d.split('-')[1]) <= 3 else 2
    meta = {'property': pid, 'id': d, 'round': rnd,
            'origin': 'written by an independent sub-agent that was given only the property text (round 2: plus one-line descriptions of the round-1 changes to avoid) and a scratch git worktree of /repo - nothing from /verif',
            'what': lines[0][:300], 'needs_to_manifest': ' '.join(lines[1:6])[:900],
            'confirmed': {'applies_to': 'current /repo HEAD', 'existing_suite_with_change': '128 passed', 'demo_exit_with_change': 1, 'demo_exit_without_change': 0,
                          'how': 'tools/confirm_mutant.sh <dir> (scratch copy of /repo under /dev/shm, git apply, pytest, demo with/without)'},
            'detection': {'command': f'tools/run_mutant.sh seeded/{d}/patch.diff {pid} --tier quick', 'result': st,
                          'first_invariant_reported': inv.group(1) if inv else None, 'report_excerpt': msg[:300]}}
    if d in cross:
        meta['detection']['also'] = f'owning check {pid} does not explore crashes by design; caught by: tools/run_mutant.sh seeded/{d}/patch.diff {cross[d]} --tier quick'
    json.dump(meta, open(p + '/meta.json', 'w'), indent=1)
    rows.append((d, st if d not in cross or st == 'CAUGHT' else f'caught by {cross[d]}', inv.group(1) if inv else ''))
print(len(rows), sum(1 for r in rows if r[1] == 'CAUGHT'))
open('/tmp/matrix_table2.md', 'w').write('\n'.join(f'| {a} | {b} | {c} |' for a, b, c in rows))
