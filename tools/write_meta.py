#!/venv/bin/python
"""write_meta.py <matrix log>...: (re)write seeded/<id>/meta.json from matrix logs (later logs override earlier lines)"""
import json, os, re, sys
res = {}
for f in sys.argv[1:]:
    for l in open(f):
        m = re.match(r'(C\d+-\d+) (CAUGHT|MISSED)\s*(.*)', l)
        if m:
            res[m.group(1)] = (m.group(2), m.group(3).strip())
cross = {'C06-5': 'C05', 'C01-7': 'C05', 'C04-8': 'C20 (and C05)', 'C14-7': 'C15', 'C16-7': 'C15', 'C06-9': 'C12', 'C20-8': 'C05',
         'C06-7': 'C05', 'C06-10': 'C05', 'C01-10': 'C16', 'C14-12': 'C16'}
# (round 5 cross catches come from the `CROSS` lines of the logs only)
# lines "<id> CROSS <check> CAUGHT|MISSED" in the logs (tools/cross_matrix.sh) confirm the cross catches
cross_res = {}
for f in sys.argv[1:]:
    for l in open(f):
        m = re.match(r'(C\d+-\d+) CROSS (C\d+) (CAUGHT|MISSED)', l)
        if m:
            cross_res[m.group(1)] = (m.group(2), m.group(3))
not_caught = {
 'C01-8': 'needs two threads inside one chain (or an asynchronous KeyboardInterrupt inside run): taskchain chains are not thread-safe and no listed property speaks about threads in a chain; storesim simulates one thread per process',
 'C02-7': 'needs a run body that mutates its parameter value in place; generated run bodies are pure functions of their arguments (the properties assume deterministic computations)',
 'C02-8': 'needs placeholder strings inside the constructor arguments of parameter objects together with the literal substituted text in the same process; object arguments are generated without placeholders',
 'C04-9': 'a transient read error makes the changed code recompute instead of failing: C04 excludes failures from its quantifier and C05 allows recomputation after a fault, so no listed property is violated as the oracle reads them',
 'C06-7': 'needs an asynchronous signal (KeyboardInterrupt/SystemExit) in the middle of a single write call; the simulator models process death (with torn prefixes) and exceptions at operation boundaries, not signals inside a write',
 'C06-8': 'needs two runs of one computation returning ==-equal but differently typed values, i.e. a non-deterministic computation; generated computations are deterministic as the properties assume',
 'C07-8': 'needs two chains running concurrently on one store (thread interleaving between unlink and rename); storesim runs one simulated process at a time',
 'C12-7': 'only the log of a failed attempt moves; nothing is demanded of the log after a failed attempt (DESIGN: relaxations)',
 'C13-9': 'MultiChain construction made concurrent: manifests only under a real thread race inside the library (the sub-agent measured 0 hits in 3000 constructions without forcing it); not a schedule the simulator controls',
 'C18-8': 'needs a chain constructed from inside a running task (re-entrancy); histories are sequences of top-level operations',
 'C05-10': 'FigureData (a matplotlib figure that cannot be pickled): figures are not among the generated data kinds (DESIGN: FigureData excluded)',
 'C06-12': 'needs a forced re-run of one computation that returns another value (an empty list after a non-empty one), i.e. a non-deterministic computation; generated computations are deterministic as the properties assume',
 'C07-12': 'needs a later forced recomputation that returns a shorter list than the interrupted one wrote, i.e. a non-deterministic computation',
 'C14-10': 'needs a forced and a non-forced call overlapping on a key that has no file yet, with "force always recomputes" (a C14 clause) judged under concurrency; schedsim (C15) does not demand that a forced call computes, cachesim (C14) is sequential',
 'C16-11': 'needs two threads making their first call of one cached method at the same moment (unsynchronised check-then-set in a registry); cachesim is sequential and C16 does not speak about threads',
 'C18-10': 'needs two runs of one task class with different keys interleaved inside Data.save_run_info (shared temp file name); storesim runs one simulated process at a time',
 'C18-12': 'needs one python Config object listed in the `uses` of several top-level configs with different contexts; generated configurations are files / dicts / fresh Config objects per rendering',
 'C20-12': 'needs a directory result holding a relative symlink that points outside its own directory; generated directory values hold files and empty directories only',
 'C02-14': 'needs a Path-typed parameter whose value carries a placeholder AND ends in a slash, built under different global-variable values; Path-typed values are generated without trailing separators',
 'C13-14': 'needs two member configs of one MultiChain that pull in the same config file under contexts with the same *name* (exp1/context.json, exp2/context.json) but different content; generated context files of one history have distinct names',
 'C20-15': 'needs the system temporary directory on another file system than the target *and* a process death inside shutil.move; the crash points of the migration profile are counted over operations inside the store only',
 'C12-15': 'needs a result that sits at its 1.4.0 place without its run info file (data-only copy); release 1.4.0 always writes the run info beside the result',
 'C20-10': 'neutralised by the F18 repair (82f9451): it needed the empty target file an interrupted copy used to leave; after the repair the rebased change no longer changes behaviour for deterministic tasks (demo exits 0 with and without it)',
}
rows = []
for d in sorted(os.listdir('/verif/seeded'), key=lambda x: (x.split('-')[0], int(x.split('-')[1]))):
    p = f'/verif/seeded/{d}'
    if d not in res and d not in cross_res and os.path.exists(p + '/meta.json'):
        # no new result for this change in the given logs: its meta.json stays as it is
        m_ = json.load(open(p + '/meta.json'))
        r_ = m_['detection']['result']
        rows.append((d, r_ if r_ == 'CAUGHT' else ('caught by ' + m_['detection']['also'].split(' ')[-3] if 'also' in m_['detection'] else 'not caught (by design)' if 'by design' in r_ else r_), m_['detection'].get('first_invariant_reported') or ''))
        continue
    notes = open(p + '/notes.md').read()
    lines = [x.strip('# -*').strip() for x in notes.splitlines() if x.strip()]
    st, msg = res.get(d, ('?', ''))
    inv = re.match(r'(I-[\w-]+)', msg)
    pid = d.split('-')[0]
    rnd = (int(d.split('-')[1]) - 1) // 3 + 1
    if d in cross_res and cross_res[d][1] == 'CAUGHT':
        cross[d] = cross_res[d][0]
    meta = {'property': pid, 'id': d, 'round': rnd,
            'origin': 'written by an independent sub-agent that was given only the property text (rounds 2-5: plus one-line descriptions of the earlier rounds\' changes to avoid) and a scratch git worktree of /repo - nothing from /verif',
            'what': lines[0][:300], 'needs_to_manifest': ' '.join(lines[1:6])[:900],
            'confirmed': {'applies_to': 'current /repo HEAD', 'existing_suite_with_change': '128 passed', 'demo_exit_with_change': 1, 'demo_exit_without_change': 0,
                          'how': 'tools/confirm_mutant.sh <dir> (scratch copy of /repo under /dev/shm, git apply, pytest, demo with/without)'},
            'detection': {'command': f'tools/run_mutant.sh seeded/{d}/patch.diff {pid} --tier quick', 'result': st,
                          'first_invariant_reported': inv.group(1) if inv else None, 'report_excerpt': msg[:300]}}
    if d in not_caught and st != 'CAUGHT':
        meta['detection']['result'] = 'NOT CAUGHT (by design)'
        meta['detection']['why'] = not_caught[d]
    if d in cross and st != 'CAUGHT':
        meta['detection']['also'] = f'the defect belongs to another property\'s fault space (crash / interleaving / other engine): caught by: tools/run_mutant.sh seeded/{d}/patch.diff {cross[d]} --tier quick'
    json.dump(meta, open(p + '/meta.json', 'w'), indent=1)
    rows.append((d, st if st == 'CAUGHT' else (f'caught by {cross[d]}' if d in cross else ('not caught (by design)' if d in not_caught else st)), inv.group(1) if inv and st == 'CAUGHT' else ''))
print(len(rows), sum(1 for r in rows if r[1] == 'CAUGHT'))
open('/tmp/matrix_table2.md', 'w').write('\n'.join(f'| {a} | {b} | {c} |' for a, b, c in rows))
