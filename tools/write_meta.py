#!/venv/bin/python
"""write_meta.py <matrix log>...: (re)write seeded/<id>/meta.json from matrix logs (later logs override earlier lines)"""
import json, os, re, sys
res = {}
for f in sys.argv[1:]:
    for l in open(f):
        m = re.match(r'(C\d+-\d+) (CAUGHT|MISSED)\s*(.*)', l)
        if m:
            res[m.group(1)] = (m.group(2), m.group(3).strip())
cross = {'C06-5': 'C05', 'C01-7': 'C05', 'C04-8': 'C20 (and C05)', 'C14-7': 'C15', 'C16-7': 'C15', 'C06-9': 'C12', 'C20-8': 'C05'}
not_caught = {
 'C01-8': 'needs two threads inside one chain (or an asynchronous KeyboardInterrupt inside run): taskchain chains are not thread-safe and no listed property speaks about threads in a chain; storesim simulates one thread per process',
 'C02-7': 'needs a run body that mutates its parameter value in place; generated run bodies are pure functions of their arguments (the properties assume deterministic computations)',
 'C02-8': 'needs placeholder strings inside the constructor arguments of parameter objects together with the literal substituted text in the same process; object arguments are generated without placeholders',
 'C04-9': 'a transient read error makes the changed code recompute instead of failing: C04 excludes failures from its quantifier and C05 allows recomputation after a fault, so no listed property is violated as the oracle reads them',
 'C06-7': 'needs an asynchronous signal (KeyboardInterrupt/SystemExit) in the middle of a single write call; the simulator models process death (with torn prefixes) and exceptions at operation boundaries, not signals inside a write',
 'C06-8': 'needs two runs of one computation returning ==-equal but differently typed values, i.e. a non-deterministic computation; generated computations are deterministic as the properties assume',
 'C07-8': 'needs two chains running concurrently on one store (thread interleaving between unlink and rename); storesim runs one simulated process at a time',
 'C12-7': 'only the log of a failed attempt moves; nothing is demanded of the log after a failed attempt (DESIGN: relaxations)',
 'C13-9': 'MultiChain construction made concurrent: manifests only under a real thread race inside the library (the sub-agent measured 0 hits in 3000 constructions without forcing it); not a schedule the simulator controls',
 'C18-8': 'needs a chain constructed from inside a running task (re-entrancy); histories are sequences of top-level operations',
}
rows = []
for d in sorted(os.listdir('/verif/seeded')):
    p = f'/verif/seeded/{d}'
    notes = open(p + '/notes.md').read()
    lines = [x.strip('# -*').strip() for x in notes.splitlines() if x.strip()]
    st, msg = res.get(d, ('?', ''))
    inv = re.match(r'(I-[\w-]+)', msg)
    pid = d.split('-')[0]
    rnd = (int(d.split('-')[1]) - 1) // 3 + 1
    meta = {'property': pid, 'id': d, 'round': rnd,
            'origin': 'written by an independent sub-agent that was given only the property text (round 2: plus one-line descriptions of the round-1 changes to avoid) and a scratch git worktree of /repo - nothing from /verif',
            'what': lines[0][:300], 'needs_to_manifest': ' '.join(lines[1:6])[:900],
            'confirmed': {'applies_to': 'current /repo HEAD', 'existing_suite_with_change': '128 passed', 'demo_exit_with_change': 1, 'demo_exit_without_change': 0,
                          'how': 'tools/confirm_mutant.sh <dir> (scratch copy of /repo under /dev/shm, git apply, pytest, demo with/without)'},
            'detection': {'command': f'tools/run_mutant.sh seeded/{d}/patch.diff {pid} --tier quick', 'result': st,
                          'first_invariant_reported': inv.group(1) if inv else None, 'report_excerpt': msg[:300]}}
    if d in not_caught and st != 'CAUGHT':
        meta['detection']['result'] = 'NOT CAUGHT (by design)'
        meta['detection']['why'] = not_caught[d]
    if d in cross:
        meta['detection']['also'] = f'owning check {pid} does not explore crashes by design; caught by: tools/run_mutant.sh seeded/{d}/patch.diff {cross[d]} --tier quick'
    json.dump(meta, open(p + '/meta.json', 'w'), indent=1)
    rows.append((d, st if st == 'CAUGHT' else (f'caught by {cross[d]}' if d in cross else ('not caught (by design)' if d in not_caught else st)), inv.group(1) if inv else ''))
print(len(rows), sum(1 for r in rows if r[1] == 'CAUGHT'))
open('/tmp/matrix_table2.md', 'w').write('\n'.join(f'| {a} | {b} | {c} |' for a, b, c in rows))
