#!/bin/sh
# run_all.sh [quick|thorough]: every registered check once; prints exit code and wall time per property
cd /verif
tier=${1:-quick}
for p in $(/venv/bin/python -c "import json; print(' '.join(c['property_id'] for c in json.load(open('MANIFEST.json'))['checks']))"); do
  t0=$(date +%s)
  out=$(./check $p --tier $tier 2>&1); rc=$?
  t1=$(date +%s)
  echo "$p rc=$rc $((t1-t0))s $(echo "$out" | grep -E 'runs=' | cut -c1-120)"
  echo "$out" | grep -E "^VIOLATION|^KNOWN-FINDING|HARNESS" | cut -c1-200
done
