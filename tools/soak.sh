#!/bin/sh
# soak.sh <seed> [props...]: thorough tier of every (or the given) check with VERIF_SEED=<seed>; evidence is NOT written (snapshot run)
seed=$1; shift
props=${@:-C01 C02 C04 C05 C06 C07 C12 C13 C14 C15 C16 C17 C18 C20}
for p in $props; do
  echo "=== $p seed=$seed $(date +%H:%M:%S)"
  VERIF_SEED=$seed ./check $p --tier thorough --no-evidence 2>&1 | grep -E "runs=|^VIOLATION|^KNOWN|HARNESS|^  I-" | cut -c1-400
done
echo "=== done $(date +%H:%M:%S)"
