#!/bin/sh
# confirm_mutant.sh <dir with patch.diff demo.py> <label>  -> prints: label suite=<pass|fail> demo_with=<rc> demo_without=<rc>
# Works on a scratch copy of /repo's working tree under /dev/shm; removes it afterwards.
d="$1"; label="$2"
s=$(mktemp -d /dev/shm/mutconf-XXXXXX)
cp -r /repo/src /repo/tests /repo/pyproject.toml "$s"/ 2>/dev/null
cd "$s" || exit 2
PYTHONPATH="$s/src" timeout 120 /venv/bin/python "$d/demo.py" >/dev/null 2>&1; without=$?
if ! git apply "$d/patch.diff" 2>/dev/null; then echo "$label patch_does_not_apply"; rm -rf "$s"; exit 0; fi
PYTHONPATH="$s/src" timeout 120 /venv/bin/python "$d/demo.py" >/dev/null 2>&1; with=$?
out=$(PYTHONPATH="$s/src" timeout 900 /venv/bin/python -m pytest -q -p no:cacheprovider --timeout=900 -x 2>&1 | tail -1)
echo "$label demo_without=$without demo_with=$with suite: $out"
cd /; rm -rf "$s"
