#!/bin/sh
# ingest_round.sh <srcroot> <ID> <offset>: copy <srcroot>/<ID>/out/{1,2,3} to /verif/seeded/<ID>-{1+off,..} and confirm each on the current /repo tree
root=$1; id=$2; off=$3
for k in 1 2 3; do
  src=$root/$id/out/$k; [ -f $src/patch.diff ] || continue
  d=/verif/seeded/$id-$((k+off)); mkdir -p $d; cp $src/patch.diff $src/demo.py $src/notes.md $d/
  (cd /tmp && /verif/tools/confirm_mutant.sh $d $id-$((k+off)))
done
