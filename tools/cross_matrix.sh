#!/bin/sh
# cross_matrix.sh "<id>:<CHECK>" ... : run another property's check against a seeded change; prints "<id> CROSS <CHECK> CAUGHT|MISSED"
cd /verif
for pair in "$@"; do
  id=${pair%%:*}; chk=${pair##*:}
  out=$(timeout 1500 tools/run_mutant.sh /verif/seeded/$id/patch.diff $chk --tier quick --no-shrink 2>&1); rc=$?
  if [ $rc -eq 1 ] && echo "$out" | grep -q "^VIOLATION property=$chk"; then echo "$id CROSS $chk CAUGHT"; else echo "$id CROSS $chk MISSED rc=$rc"; fi
done
