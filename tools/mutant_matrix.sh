#!/bin/sh
# mutant_matrix.sh [ids...] : run the owning check (quick tier) against every seeded change; prints CAUGHT/MISSED per change
cd /verif
for d in ${@:-seeded/*}; do
  d=${d%/}; name=$(basename $d); prop=${name%%-*}
  out=$(timeout 1500 tools/run_mutant.sh /verif/$d/patch.diff $prop --tier quick --no-shrink 2>&1)
  rc=$?
  if [ $rc -eq 1 ] && echo "$out" | grep -q "^VIOLATION property=$prop"; then echo "$name CAUGHT $(echo "$out" | grep -m1 -E '^  I-|^  [A-Za-z]' | cut -c1-160)";
  else echo "$name MISSED rc=$rc $(echo "$out" | grep -E 'runs=' | cut -c1-200)"; fi
done
