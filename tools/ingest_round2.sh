#!/bin/sh
# ingest_round2.sh <ID>: copy /tmp/mut2/<ID>/out/{1,2,3} to /verif/seeded/<ID>-{4,5,6} and confirm each
id=$1
for k in 1 2 3; do
  src=/tmp/mut2/$id/out/$k; [ -f $src/patch.diff ] || continue
  d=/verif/seeded/$id-$((k+3)); mkdir -p $d; cp $src/patch.diff $src/demo.py $src/notes.md $d/
  (cd /tmp && /verif/tools/confirm_mutant.sh $d $id-$((k+3)))
done
