"""Provenance-bearing values and type-strict canonicalisation (shared by simulator parent and simulated processes).

make_value(kind, h) is a deterministic function of the record digest h (hex) -> a value from the storable domain of the
data kind.  canon(value) maps any such value (as returned by taskchain) to a JSON-able structure in which element types,
dtypes, shapes, ordering and nesting are all visible, so that `canon(a) == canon(b)` is the equality the properties speak of.
"""
import hashlib
import json
import math
import random
from pathlib import Path

import numpy as np
import pandas as pd

JSON_KINDS = ('int', 'float', 'str', 'bool', 'dict', 'list')
FILE_KINDS = JSON_KINDS + ('ndarray', 'frame', 'series', 'gen')
DIR_KINDS = ('dir', 'listnp', 'cont')
ALL_KINDS = FILE_KINDS + DIR_KINDS + ('genlazy', 'mem', 'memobj')

EXT = {
    'int': 'json', 'float': 'json', 'str': 'json', 'bool': 'json', 'dict': 'json', 'list': 'json',
    'ndarray': 'npy', 'frame': 'pd', 'series': 'pd', 'gen': 'jsonl', 'genlazy': 'jsonl',
    'dir': None, 'listnp': None, 'cont': None, 'mem': None, 'memobj': None,
}

_ALPHA = 'abcdefghijklmnopqrstuvwxyzABCDEFGHIJKLMNOPQRSTUVWXYZ0123456789 _-.,:;!?/\\\'"{}[]()<>@#$%^&*+=|~`\t\n'
_UNI = 'áßçðéñøüþÿĀčřžΩλπжщяאשあア漢字😀🚀​ ﻿'

BOUND_INTS = [0, 1, -1, 2**31 - 1, -(2**31), 2**31, 2**53, 2**53 + 1, -(2**53) - 1, 2**63 - 1, -(2**63), 255, 256, 65535]
BOUND_FLOATS = [0.0, -0.0, 1.0, -1.0, 0.1, 1e-300, 5e-324, 1.7976931348623157e308, -1.7976931348623157e308, 1e16,
                1.0000000000000002, 123456789.12345678, 2.2250738585072014e-308, 1e22, 1e23, 0.30000000000000004]


def sha(b) -> str:
    if isinstance(b, str):
        b = b.encode('utf-8', 'surrogatepass')
    return hashlib.sha256(b).hexdigest()


def jdump(obj) -> str:
    return json.dumps(obj, sort_keys=True, ensure_ascii=True, allow_nan=True, separators=(',', ':'))


def digest(obj) -> str:
    return sha(jdump(obj))


# ----------------------------------------------------------------------------------------------- generation

def _gen_str(r: random.Random, maxlen=12) -> str:
    n = r.choice([0, 1, 1, 2, 3, 5, 8, maxlen])
    pool = _ALPHA if r.random() < 0.6 else _ALPHA + _UNI
    s = ''.join(r.choice(pool) for _ in range(n))
    if r.random() < 0.06:
        # characters that str.splitlines() treats as line boundaries although '\n'-based readers do not
        k = r.randint(0, len(s))
        s = s[:k] + r.choice(['\u2028', '\u2029', '\x85', '\x0b', '\x0c', '\x1c', '\x1d', '\x1e', '\r', '\r\n']) + s[k:]
    return s


def _gen_int(r):
    return r.choice(BOUND_INTS) if r.random() < 0.4 else r.randint(-10**6, 10**6)


def _gen_float(r):
    if r.random() < 0.5:
        return r.choice(BOUND_FLOATS)
    return r.uniform(-1e6, 1e6) if r.random() < 0.7 else r.uniform(-1, 1) * 10 ** r.randint(-300, 300)


def gen_json(r: random.Random, depth=0, big=False):
    """JSON-like value: string keys, finite floats, 64-bit ints, valid unicode."""
    t = r.random()
    if depth >= 3 or t < 0.45:
        k = r.randrange(6)
        if k == 0:
            return _gen_int(r)
        if k == 1:
            return _gen_float(r)
        if k == 2:
            return _gen_str(r)
        if k == 3:
            return r.random() < 0.5
        if k == 4:
            return None
        return r.choice([0, '', False, 0.0, [], {}])
    n = r.choice([0, 1, 2, 3, 5]) if not big else r.choice([50, 200, 700])
    if t < 0.72:
        return [gen_json(r, depth + 1) for _ in range(n)]
    return {_gen_str(r, 6) + str(i) if r.random() < 0.8 else _gen_str(r, 6): gen_json(r, depth + 1) for i in range(n)}


_DTYPES = ['<i8', '<i4', '<i2', '|i1', '|u1', '<u2', '<u4', '<u8', '<f8', '<f4', '<f2', '|b1', '<c16', '<c8', '<U3', '|S4', '<U1',
           '>i4', '>f8']


def gen_array(r: random.Random, big=False):
    dt = np.dtype(r.choice(_DTYPES))
    nd = r.choice([0, 1, 1, 2, 2, 3])
    shape = tuple(r.choice([0, 1, 2, 3, 4]) for _ in range(nd))
    if big and nd:
        shape = (r.choice([600, 1100, 3000]),) + shape[1:]
        shape = tuple(max(1, s) for s in shape)
    n = int(np.prod(shape)) if shape else 1
    if dt.kind in 'iu':
        info = np.iinfo(dt)
        vals = [r.choice([info.min, info.max, 0, 1]) if r.random() < 0.3 else r.randint(info.min, info.max) for _ in range(n)]
    elif dt.kind == 'f':
        vals = [r.choice([0.0, -0.0, 1.5, float('inf'), float('-inf'), float('nan')]) if r.random() < 0.3 else r.uniform(-1e3, 1e3)
                for _ in range(n)]
    elif dt.kind == 'c':
        vals = [complex(r.uniform(-5, 5), r.uniform(-5, 5)) for _ in range(n)]
    elif dt.kind == 'b':
        vals = [r.random() < 0.5 for _ in range(n)]
    elif dt.kind == 'U':
        vals = [''.join(r.choice('abcXYZ éλ漢') for _ in range(r.randint(0, dt.itemsize // 4))) for _ in range(n)]
    else:  # S
        vals = [bytes(r.choice(b'abcXYZ09') for _ in range(r.randint(0, dt.itemsize))) for _ in range(n)]
    with np.errstate(all='ignore'):
        arr = np.array(vals, dtype=dt).reshape(shape)
    if nd >= 2 and r.random() < 0.2:
        arr = np.asfortranarray(arr)
    return arr


def _gen_labels(r, n, kind=None):
    kind = kind or r.choice(['range', 'int', 'str', 'float', 'mixed_str', 'dates'])
    if kind == 'dates':
        return list(pd.to_datetime(np.array(sorted(r.sample(range(0, 10**6), n)), dtype='datetime64[h]')))
    if kind == 'range':
        return list(range(n))
    if kind == 'int':
        return r.sample(range(-50 - 10 * n, 50 + 10 * n), n)
    if kind == 'float':
        return [round(r.uniform(-5, 5), 3) + i for i in range(n)]
    if kind == 'str':
        return [_gen_str(r, 5) + str(i) for i in range(n)]
    return [r.choice(['', ' ', 'a', 'é', '0', 'col']) + str(i) for i in range(n)]


def _gen_column(r, n):
    k = r.choice(['i8', 'f8', 'bool', 'str', 'i4', 'f4', 'u1', 'dt', 'cat', 'obj', 'Int64', 'string', 'td', 'dttz', 'c16'])
    if k == 'i8':
        return np.array([_gen_int(r) for _ in range(n)], dtype='int64')
    if k == 'f8':
        return np.array([r.choice([float('nan'), float('inf'), -0.0]) if r.random() < 0.2 else _gen_float(r) for _ in range(n)], dtype='float64')
    if k == 'bool':
        return np.array([r.random() < 0.5 for _ in range(n)], dtype=bool)
    if k == 'str':
        return np.array([_gen_str(r) for _ in range(n)], dtype=object)
    if k == 'i4':
        return np.array([r.randint(-2**31, 2**31 - 1) for _ in range(n)], dtype='int32')
    if k == 'f4':
        return np.array([r.uniform(-10, 10) for _ in range(n)], dtype='float32')
    if k == 'u1':
        return np.array([r.randint(0, 255) for _ in range(n)], dtype='uint8')
    if k == 'dt':
        return np.array([r.randint(0, 2 * 10**9) for _ in range(n)], dtype='datetime64[s]').astype('datetime64[ns]')
    if k == 'cat':
        return pd.Categorical([r.choice(['x', 'y', 'z']) for _ in range(n)], categories=['z', 'y', 'x', 'w'])
    if k == 'Int64':
        return pd.array([r.choice([None, 0, -1, 2**62]) if r.random() < 0.4 else r.randint(-99, 99) for _ in range(n)], dtype='Int64')
    if k == 'string':
        return pd.array([r.choice([None, '', 'x']) if r.random() < 0.4 else _gen_str(r, 6) for _ in range(n)], dtype='string')
    if k == 'td':
        return np.array([r.randint(-10**9, 10**9) for _ in range(n)], dtype='timedelta64[ms]').astype('timedelta64[ns]')
    if k == 'dttz':
        return pd.DatetimeIndex(np.array([r.randint(0, 2 * 10**9) for _ in range(n)], dtype='datetime64[s]').astype('datetime64[ns]'), tz='UTC').tz_convert('Europe/Prague')
    if k == 'c16':
        return np.array([complex(r.uniform(-2, 2), r.uniform(-2, 2)) for _ in range(n)], dtype='complex128')
    return np.array([r.choice([None, 1, 'a', 2.5, True]) for _ in range(n)], dtype=object)


def gen_frame(r: random.Random, big=False):
    nrows = r.choice([0, 1, 2, 3, 5]) if not big else r.choice([300, 900])
    ncols = r.choice([0, 1, 2, 3, 4])
    cols = _gen_labels(r, ncols, r.choice(['str', 'int', 'mixed_str', 'range']))
    data = {c: _gen_column(r, nrows) for c in cols}
    index = _gen_labels(r, nrows)
    df = pd.DataFrame(data, index=pd.Index(index, name=r.choice([None, 'idx', ''])), columns=cols)
    if r.random() < 0.15 and nrows >= 2:
        df.index = pd.MultiIndex.from_arrays([list(range(nrows)), [r.choice('ab') for _ in range(nrows)]], names=['l0', None])
    return df


def gen_series(r: random.Random, big=False):
    n = r.choice([0, 1, 2, 4]) if not big else 1500
    return pd.Series(_gen_column(r, n), index=_gen_labels(r, n), name=r.choice([None, 's', 0, '']))


def gen_dir(r: random.Random):
    """dict relpath -> str content (or None for empty dir)."""
    out = {}
    for i in range(r.choice([0, 1, 2, 4])):
        parts = [r.choice(['a', 'b', 'sub', 'x.y'])] * r.choice([0, 0, 1]) + [f'f{i}' + r.choice(['', '.txt', '.json', '.npy'])]
        out['/'.join(parts)] = _gen_str(r, 40) * r.choice([1, 1, 300])
    if r.random() < 0.2:
        out['emptydir'] = None
    return out


def make_value(kind: str, h: str):
    """Deterministic value of data kind `kind` from the record digest `h`."""
    r = random.Random('v:' + kind + ':' + h)
    big = r.random() < 0.12
    tag = h[:16]
    if kind == 'int':
        return int(h[:15], 16) if r.random() < 0.7 else r.choice(BOUND_INTS) ^ (int(h[:6], 16) << 8) & (2**62 - 1)
    if kind == 'float':
        return float(int(h[:13], 16)) / r.choice([1.0, 3.0, 7e5, 1e-9])
    if kind == 'str':
        return tag + _gen_str(r, 30 if not big else 9000)
    if kind == 'bool':
        return int(h[:2], 16) % 2 == 0
    if kind == 'dict':
        return {'h': tag, 'v': gen_json(r, 1, big), _gen_str(r, 4) + '_': gen_json(r, 1)}
    if kind == 'list':
        return [tag] + [gen_json(r, 1) for _ in range(r.choice([0, 1, 3] if not big else [900]))]
    if kind == 'ndarray':
        if r.random() < 0.015:
            # larger than any plausible in-memory/mmap threshold (17.6 MB)
            a = np.zeros(2_200_000, dtype='<f8')
            a[:16] = np.frombuffer(bytes.fromhex(h[:32]), dtype=np.uint8)
            return a
        a = gen_array(r, big)
        if r.random() < 0.5 or a.size == 0:
            # make provenance visible: 1-d uint8 array of digest bytes (another dtype/shape family)
            b = np.frombuffer(bytes.fromhex(h[:32]), dtype=np.uint8).copy()
            return b if r.random() < 0.5 else b.astype(r.choice(['<i8', '<f8', '<u2'])).reshape(r.choice([(16,), (4, 4), (2, 2, 4)]))
        flat = a.reshape(-1)
        if a.dtype.kind in 'iuf' and flat.size:
            flat = flat.copy()
            with np.errstate(all='ignore'):
                flat[0] = np.array(int(h[:2], 16) % 100).astype(a.dtype)
            a = flat.reshape(a.shape)
        return a
    if kind == 'frame':
        df = gen_frame(r, big)
        df.attrs = {}
        df['prov_' + tag[:6]] = [tag] * len(df)
        return df
    if kind == 'series':
        s = gen_series(r, big)
        s = pd.concat([s, pd.Series([tag], index=['prov'])]) if s.dtype == object else s.rename(tag)
        return s
    if kind in ('gen', 'genlazy'):
        if r.random() < 0.06:
            return []       # a legitimately empty sequence (0-byte json-lines file); carries no provenance
        n = r.choice([0, 1, 2, 5]) if not big else r.choice([400, 1001, 2300])
        return [{'h': tag, 'i': i, 'v': gen_json(r, 2)} if r.random() < 0.8 else gen_json(r, 1) for i in range(n)] + [tag]
    if kind in ('dir', 'cont'):
        d = gen_dir(r)
        d['prov.txt'] = tag
        return d
    if kind == 'listnp':
        return [gen_array(r) for _ in range(r.choice([0, 1, 2, 3, 11]))] + [np.frombuffer(bytes.fromhex(h[:16]), dtype=np.uint8).copy()]
    if kind == 'mem':
        return {'h': tag, 'v': gen_json(r, 2)}
    if kind == 'memobj':
        # payload of a user-defined in-memory data object with __len__: legitimately empty (falsy) sometimes
        return [] if r.random() < 0.35 else [tag, gen_json(r, 2)]
    raise ValueError(kind)


def _retype(v):
    """the same JSON value with other element types: ints become floats, bools become ints (== holds, types differ)"""
    if isinstance(v, bool):
        return int(v)
    if isinstance(v, int) and abs(v) < 2**52:
        return float(v)
    if isinstance(v, list):
        return [_retype(x) for x in v]
    if isinstance(v, dict):
        return {k: _retype(x) for k, x in v.items()}
    return v


def helper_thread_logs(slug: str) -> bool:
    """does the generated run body of this task class log from a helper thread (decided by the class name: no scenario field)"""
    return int(sha("tlog:" + slug)[:2], 16) < 56


def pick(tag: str, slug: str, per256: int) -> bool:
    """a per-class coin decided by the class name (no scenario field, same answer in the simulated process and in the model)"""
    return int(sha(tag + ':' + slug)[:2], 16) < per256


def make_value_rev(kind: str, h: str, e: int):
    """value of a computation that also reads an external resource (not a declared input) at revision `e`; revision 0 is
    make_value(kind, h). Later revisions are biased to what makes an incomplete replacement of a stored result visible:
    the revision-0 value with other element types, a shorter / emptier value, or an unrelated value."""
    if not e:
        return make_value(kind, h)
    r = random.Random(f'rev:{kind}:{h}:{e}')
    mode = r.random()
    base = make_value(kind, h)
    tag = digest([h, e])[:16]
    if mode < 0.25 and kind in ('dict', 'list', 'gen', 'genlazy', 'mem'):
        v = _retype(base)
        if v != base or canon_json(v) != canon_json(base):
            return v
    if mode < 0.55:
        if kind == 'list':
            return [tag] if r.random() < 0.5 else []
        if kind in ('gen', 'genlazy'):
            return [] if r.random() < 0.5 else [tag]
        if kind == 'listnp':
            return [] if r.random() < 0.5 else [np.frombuffer(bytes.fromhex(tag), dtype=np.uint8).copy()]
        if kind == 'dict':
            return {'h': tag}
        if kind in ('dir', 'cont'):
            keep = sorted(base)[: r.choice([0, 1])]
            d = {k: base[k] for k in keep if k != 'prov.txt'}
            d['prov.txt'] = tag
            return d
        if kind == 'ndarray':
            return np.frombuffer(bytes.fromhex(tag), dtype=np.uint8).copy()[: r.choice([0, 1, 8])]
        if kind == 'str':
            return tag[: r.choice([0, 1, 16])]
    return make_value(kind, digest([h, e]))


# ----------------------------------------------------------------------------------------------- canonical form

def _cfloat(f: float):
    if math.isnan(f):
        return 'nan'
    return repr(f)


def canon_json(v):
    """Type-strict canonical form of a JSON-like value."""
    if v is None:
        return None
    t = type(v)
    if t is bool:
        return {'$b': v}
    if t is int:
        return {'$i': str(v)}
    if t is float:
        return {'$f': _cfloat(v)}
    if t is str or isinstance(v, str):
        return v if t is str else {'$strsub': t.__name__, 'v': str(v)}
    if t is list:
        return [canon_json(x) for x in v]
    if t is tuple:
        return {'$tuple': [canon_json(x) for x in v]}
    if t is dict:
        out = {}
        for k, x in v.items():
            kk = k if type(k) is str else '$nonstr:' + type(k).__name__ + ':' + repr(k)
            out[kk] = canon_json(x)
        return {'$d': out}
    if isinstance(v, (np.generic,)):
        return {'$npscalar': [v.dtype.str, repr(v.item())]}
    return {'$other': [t.__module__ + '.' + t.__name__, repr(v)[:200]]}


def canon_array(a):
    if not isinstance(a, np.ndarray):
        return {'$notarray': [type(a).__name__, repr(a)[:100]]}
    if a.dtype == object:
        return {'$nd': ['O', list(a.shape), digest([canon_json(x) if not isinstance(x, (np.generic,)) else canon_json(x.item()) for x in a.reshape(-1).tolist()])]}
    c = np.ascontiguousarray(a)
    return {'$nd': [a.dtype.str, list(a.shape), sha(c.tobytes())]}


def _canon_index(ix):
    if isinstance(ix, pd.MultiIndex):
        return {'$mi': [[str(n) if n is not None else None for n in ix.names], [canon_json(list(t)) for t in ix.tolist()]]}
    return {'$ix': [type(ix).__name__, str(ix.dtype), canon_json(ix.name) if not isinstance(ix.name, tuple) else repr(ix.name),
                    [canon_json(x) if not isinstance(x, (np.generic, pd.Timestamp)) else repr(x) for x in ix.tolist()]]}


def _canon_col(s: pd.Series):
    dt = s.dtype
    if isinstance(dt, pd.CategoricalDtype):
        return {'$cat': [list(map(str, dt.categories)), bool(dt.ordered), s.cat.codes.tolist()]}
    if str(dt) in ('Int64', 'string') or 'datetime64[ns, ' in str(dt):
        return {'$ext': [str(dt), [None if pd.isna(x) else repr(x) for x in s.tolist()]]}
    arr = s.to_numpy()
    if arr.dtype == object:
        return {'$ocol': [canon_json(x) if not isinstance(x, (np.generic,)) else {'$np': [x.dtype.str, repr(x.item())]} for x in arr.tolist()]}
    return canon_array(arr)


def canon_frame(df):
    if isinstance(df, pd.Series):
        return {'$series': {'name': canon_json(df.name) if not isinstance(df.name, (np.generic,)) else repr(df.name),
                            'dtype': str(df.dtype), 'index': _canon_index(df.index), 'v': _canon_col(df)}}
    if not isinstance(df, pd.DataFrame):
        return {'$notframe': type(df).__name__}
    return {'$df': {'columns': _canon_index(df.columns), 'index': _canon_index(df.index), 'dtypes': [str(d) for d in df.dtypes],
                    'cols': [_canon_col(df.iloc[:, i]) for i in range(df.shape[1])]}}


def canon_dir_spec(spec: dict):
    """canon of a directory given as {relpath: content|None}."""
    out = {}
    for rel, content in spec.items():
        out[rel] = None if content is None else sha(content)
        parts = rel.split('/')
        for i in range(1, len(parts)):
            out.setdefault('/'.join(parts[:i]), None)
    return {'$dir': out}


def canon_dir_path(p: Path):
    p = Path(p)
    if not p.is_dir():
        return {'$nodir': p.exists()}
    out = {}
    for q in sorted(p.rglob('*')):
        rel = q.relative_to(p).as_posix()
        if q.is_dir():
            out[rel] = None
        else:
            out[rel] = sha(q.read_bytes())
    return {'$dir': out}


def write_dir_spec(spec: dict, base: Path):
    for rel, content in spec.items():
        q = base / rel
        if content is None:
            q.mkdir(parents=True, exist_ok=True)
        else:
            q.parent.mkdir(parents=True, exist_ok=True)
            with open(q, 'w', encoding='utf-8', newline='') as f:
                f.write(content)


def canon_expected(kind: str, value):
    """canon of the value make_value(kind, h) as taskchain is expected to hand it to callers."""
    if kind in JSON_KINDS or kind in ('gen', 'mem', 'memobj'):
        return canon_json(value)
    if kind == 'genlazy':
        return canon_json(value)
    if kind == 'ndarray':
        return canon_array(value)
    if kind in ('frame', 'series'):
        return canon_frame(value)
    if kind in ('dir', 'cont'):
        return canon_dir_spec(value)
    if kind == 'listnp':
        return [canon_array(a) for a in value]
    raise ValueError(kind)


def canon_observed(kind: str, value):
    """canon of what taskchain returned for a task of data kind `kind`."""
    try:
        if kind == 'memobj':
            return canon_json(getattr(value, 'payload', {'$notbox': type(value).__name__}))
        if kind in JSON_KINDS or kind in ('gen', 'mem'):
            return canon_json(value)
        if kind == 'genlazy':
            if callable(value):
                value = list(value())
            return canon_json(value)
        if kind == 'ndarray':
            return canon_array(value)
        if kind in ('frame', 'series'):
            return canon_frame(value)
        if kind in ('dir', 'cont'):
            if not isinstance(value, Path):
                return {'$notpath': repr(value)[:100]}
            return canon_dir_path(value)
        if kind == 'listnp':
            if not isinstance(value, list):
                return {'$notlist': type(value).__name__}
            return [canon_array(a) for a in value]
    except Exception as e:  # a value that cannot even be canonicalised is reported as such, not as a harness error
        return {'$canon_error': [type(e).__name__, str(e)[:200]]}
    raise ValueError(kind)
