"""Code that runs inside a simulated process (forked child of a zygote that has imported taskchain).

Executes a list of operations against the real taskchain, streaming one JSON observation per operation to `out_fd`.
Draws nothing: everything is dictated by the scenario.
"""
import copy
import errno
import io
import json
import logging
import os
import sys
import types
import traceback
from pathlib import Path

from .. import values as V
from . import abstract as A

CRASH_EXIT = 77


class State:
    def __init__(self):
        self.root = None          # world root dir
        self.store = None         # str path of store dir (with trailing slash)
        self.inv = []             # invocation log of the current op
        self.fs = []              # fs events of the current op
        self.active = False       # record fs events
        self.crash_at = None      # countdown of mutating events until crash
        self.crash_tear = None
        self.crash_when = 'before'
        self.interrupted = None
        self.fail_n = {}
        self.werr_limit = None
        self.werr_path = None
        self.werr_kind = None
        self.werr_close = False
        self.crash_wlimit = None
        self.err_at = None
        self.err_no = None
        self.rerr_at = None
        self.last_wopen = None
        self.run_faults = {}      # slug -> [kind, at]
        self.rev = {}             # slug -> revision of the external resource its run body reads (0 when absent)
        self.run_counter = 0
        self.proc = 0
        self.out_fd = None
        self.clock = None
        self.fired = []           # faults fired in the current op
        self.in_hook = False


ST = State()

_WFLAGS = os.O_WRONLY | os.O_RDWR | os.O_CREAT | os.O_TRUNC | os.O_APPEND


def _abspath(p, dir_fd=None):
    if isinstance(p, int):
        try:
            return os.readlink(f'/proc/self/fd/{p}')
        except OSError:
            return None
    try:
        p = os.fspath(p)
    except TypeError:
        return None
    if isinstance(p, bytes):
        p = p.decode('utf-8', 'surrogateescape')
    if not os.path.isabs(p):
        if dir_fd is not None and isinstance(dir_fd, int) and dir_fd >= 0:
            try:
                base = os.readlink(f'/proc/self/fd/{dir_fd}')
            except OSError:
                return None
            p = os.path.join(base, p)
        else:
            p = os.path.abspath(p)
    return p


def _emit(obj):
    data = (json.dumps(obj, ensure_ascii=True) + '\n').encode()
    view = memoryview(data)
    while view:
        n = os.write(ST.out_fd, view)
        view = view[n:]


def _mutating(kind, path, extra=None):
    """called from the audit hook for every mutating fs event under the store."""
    rel = path[len(ST.store):]
    if ST.crash_at is not None:
        if ST.crash_at == 0:
            if ST.crash_when == 'interrupt' and ST.crash_wlimit is not None and kind == 'wopen':
                # the interrupt arrives INSIDE a write to this file, after `wlimit` units were written
                ST.crash_at = None
                ST.werr_path = path
                ST.werr_kind = 'interrupt'
                ST.fs.append([kind, rel])
                ST.last_wopen = rel
                return
            if ST.crash_when == 'interrupt':
                # the process is interrupted (SIGINT/SIGTERM turned into an exception) immediately before this operation:
                # the stack unwinds - finally blocks and context managers run - and then the process ends
                ST.crash_at = None
                ST.interrupted = {'crash': True, 'at': [kind, rel, 'interrupt'], 'last_wopen': None}
                raise KeyboardInterrupt('injected interrupt')
            if ST.crash_when == 'after':
                # die immediately AFTER this operation has been performed: the first C-function return seen by the
                # profiler is the return of the audited call itself (python buffers of open files are lost, as in a kill)
                ST.crash_at = None
                ST.fs.append([kind, rel] if extra is None else [kind, rel, extra])
                at = [kind, rel, 'after']
                lw = rel if kind == 'wopen' else None

                def _die(frame, event, arg):
                    if event in ('c_return', 'c_exception'):
                        sys.setprofile(None)
                        _emit({'crash': True, 'at': at, 'last_wopen': lw, 'inv': ST.inv, 'fs': ST.fs, 'fired': ST.fired})
                        os._exit(CRASH_EXIT)
                sys.setprofile(_die)
                return
            _emit({'crash': True, 'at': [kind, rel], 'last_wopen': ST.last_wopen, 'inv': ST.inv, 'fs': ST.fs, 'fired': ST.fired})
            os._exit(CRASH_EXIT)
        ST.crash_at -= 1
    if ST.err_at is not None:
        if ST.err_at == 0 and ST.werr_limit is not None and kind == 'wopen':
            # the disk fills up / fails WHILE this file is written: the open succeeds, a write fails after `limit` units
            ST.err_at = None
            ST.werr_path = path
            ST.werr_kind = 'close' if ST.werr_close else 'oserror'
            ST.fs.append([kind, rel])
            ST.last_wopen = rel
            return
        if ST.err_at == 0:
            ST.err_at = None
            ST.fired.append(['diskerr', kind, rel])
            ST.fs.append(['!' + kind, rel])
            raise OSError(ST.err_no, os.strerror(ST.err_no), path)
        ST.err_at -= 1
    ST.fs.append([kind, rel] if extra is None else [kind, rel, extra])
    ST.last_wopen = rel if kind == 'wopen' else None


def _hook(event, args):
    if not ST.active or ST.in_hook:
        return
    if event == 'open':
        path, mode, flags = args
        p = _abspath(path)
        if p is None or not p.startswith(ST.store):
            return
        if isinstance(flags, int) and flags & _WFLAGS:
            ST.in_hook = True
            try:
                _mutating('wopen', p)
            finally:
                ST.in_hook = False
        else:
            if os.path.isdir(p):
                return
            rel = p[len(ST.store):]
            if ST.rerr_at is not None and not rel.endswith('.lock'):
                if ST.rerr_at == 0:
                    # transient read error (EMFILE/EIO) on opening a stored file
                    ST.rerr_at = None
                    ST.fired.append(['diskerr', 'ropen', rel])
                    ST.fs.append(['!ropen', rel])
                    raise OSError(ST.err_no or errno.EIO, os.strerror(ST.err_no or errno.EIO), p)
                ST.rerr_at -= 1
            ST.fs.append(['ropen', rel])
        return
    if event in ('os.remove', 'os.rmdir', 'os.mkdir'):
        p = _abspath(args[0], args[-1])
        kind = event[3:]
    elif event == 'os.rename':
        p = _abspath(args[0], args[2])
        q = _abspath(args[1], args[3])
        if p is not None and p.startswith(ST.store):
            ST.in_hook = True
            try:
                _mutating('rename', p, q[len(ST.store):] if q and q.startswith(ST.store) else q)
            finally:
                ST.in_hook = False
        return
    elif event == 'os.symlink':
        p = _abspath(args[1], args[2])
        kind = 'symlink'
    elif event == 'os.truncate':
        p = _abspath(args[0])
        kind = 'truncate'
    else:
        return
    if p is None or not p.startswith(ST.store):
        return
    ST.in_hook = True
    try:
        _mutating(kind, p)
    finally:
        ST.in_hook = False


class _WErrFile:
    """file object whose writes fail once `limit` units (bytes / characters) were written: a short write, then the error.
    kind 'oserror': the failing write raises OSError; 'interrupt': it raises KeyboardInterrupt (signal inside a write);
    'close': nothing reaches the disk before the file is flushed or closed (everything sits in the buffer), the flush/close
    then writes `limit` units and raises OSError - and a file that is never closed explicitly loses the rest silently when
    it is finalised, exactly like CPython's implicit close, which swallows the error."""

    def __init__(self, f, limit, err_no, path, rel, kind='oserror'):
        self.__dict__.update(_f=f, _limit=limit, _written=0, _err_no=err_no, _path=path, _rel=rel, _failed=False, _kind=kind,
                             _buf=[], _closed=False)

    def _fail(self):
        d = self.__dict__
        if not d['_failed']:
            d['_failed'] = True
            ST.fired.append(['diskerr', 'write' if d['_kind'] != 'close' else 'close', d['_rel']])
            ST.fs.append(['!write', d['_rel']])
        raise OSError(d['_err_no'], os.strerror(d['_err_no']), d['_path'])

    def write(self, data):
        d = self.__dict__
        n = len(data)
        if d['_kind'] == 'close':
            d['_buf'].append(data)
            return n
        room = d['_limit'] - d['_written']
        if n > room:
            if room > 0:
                d['_f'].write(data[:room])
                d['_written'] = d['_limit']
            try:
                d['_f'].flush()
            except Exception:
                pass
            if d['_kind'] == 'interrupt':
                if ST.interrupted is None:
                    ST.interrupted = {'crash': True, 'at': ['write', d['_rel'], 'interrupt'], 'last_wopen': None}
                raise KeyboardInterrupt('injected interrupt inside write')
            self._fail()
        d['_written'] += n
        return d['_f'].write(data)

    def _drain(self, explicit):
        """buffered data goes to the disk: all of it if it fits, else the first `limit` units and (explicit flush/close) the error"""
        d = self.__dict__
        buf, d['_buf'] = d['_buf'], []
        if not buf:
            return
        total = sum(len(b) for b in buf)
        data = buf[0][:0].join(buf)
        if d['_written'] + total <= d['_limit']:
            d['_f'].write(data)
            d['_written'] += total
            return
        room = max(0, d['_limit'] - d['_written'])
        if room:
            d['_f'].write(data[:room])
        d['_written'] = d['_limit']
        if explicit:
            try:
                d['_f'].flush()
            except Exception:
                pass
            self._fail()
        elif not d['_failed']:
            d['_failed'] = True
            ST.fired.append(['diskerr', 'close', d['_rel']])
            ST.fs.append(['!write', d['_rel']])

    def flush(self):
        d = self.__dict__
        if d['_kind'] == 'close':
            self._drain(True)
        return d['_f'].flush()

    def close(self):
        d = self.__dict__
        if d['_kind'] == 'close' and not d['_closed']:
            d['_closed'] = True
            try:
                self._drain(True)
            finally:
                d['_f'].close()
            return None
        return d['_f'].close()

    def __del__(self):
        d = self.__dict__
        try:
            if d.get('_kind') == 'close' and not d.get('_closed'):
                d['_closed'] = True
                self._drain(False)
                d['_f'].close()
        except Exception:
            pass

    def writelines(self, lines):
        for ln in lines:
            self.write(ln)

    def __getattr__(self, a):
        return getattr(self.__dict__['_f'], a)

    def __enter__(self):
        return self

    def __exit__(self, *a):
        self.close()
        return False

    def __iter__(self):
        return iter(self.__dict__['_f'])


def install_open_seam():
    import builtins
    real_open = builtins.open

    def _open(file, mode='r', *a, **k):
        f = real_open(file, mode, *a, **k)
        if ST.werr_path is not None and ST.active and not isinstance(file, int):
            p = _abspath(file)
            if p == ST.werr_path and isinstance(mode, str) and any(c in mode for c in 'wax+'):
                ST.werr_path = None
                if ST.werr_kind == 'interrupt':
                    return _WErrFile(f, ST.crash_wlimit, None, p, p[len(ST.store):], 'interrupt')
                return _WErrFile(f, ST.werr_limit, ST.err_no, p, p[len(ST.store):], ST.werr_kind)
        return f
    builtins.open = _open
    io.open = _open


# ------------------------------------------------------------------------------------------------- clock

def install_clock(proc_index):
    import datetime as _dt
    import taskchain.task as tt

    class SimClock:
        base = 1_700_000_000 + proc_index * 100_000
        ticks = 0

    real = _dt.datetime

    class FakeDateTime(real):
        @classmethod
        def now(cls, tz=None):
            SimClock.ticks += 1
            return real.fromtimestamp(SimClock.base + SimClock.ticks, tz)

    tt.datetime = FakeDateTime
    ST.clock = SimClock


# ------------------------------------------------------------------------------------------------- world -> classes

class RunFault(Exception):
    pass


def _pvalue(v):
    """parameter value as the task received it -> the JSON-like / definition form the oracle reasons about"""
    if isinstance(v, Path):
        return str(v)
    d = getattr(v, '_taskchain_instantiate_def', None)
    if d is not None:
        return A.mark_placeholders(d)
    if isinstance(v, list):
        return [_pvalue(x) for x in v]
    if isinstance(v, dict):
        return {k: _pvalue(x) for k, x in v.items()}
    if isinstance(v, str) and type(v) is not str:
        return str(v)
    return v


def _generic_run(self, cspec, argvals):
    """body of every generated run method."""
    from taskchain.task import Task
    slug = cspec['slug']
    ST.run_counter += 1
    runid = f'{ST.proc}.{ST.run_counter}'
    key = None
    try:
        key = self.name_for_persistence
    except Exception:
        pass
    started_tick = ST.clock.base + ST.clock.ticks if ST.clock else None
    rec = {'task': self.fullname, 'key': key, 'run': runid, 'started': started_tick}
    ST.inv.append(rec)
    fault = ST.run_faults.get(slug)
    if fault and fault[0] == 'raise_start':
        del ST.run_faults[slug]
        ST.fired.append(['runfault', slug, 'raise_start'])
        raise RunFault('injected: raise at start')
    self.logger.info(f'marker {runid} begin')
    self.save_to_run_info({'marker': runid, 'n': 0})
    # read inputs
    reads = {}
    for idx in cspec['reads']:
        inp = cspec['inputs'][idx]
        if inp.get('optional') == 'absent':
            continue
        relname = A.fullname(inp.get('rel') or None, inp['_slug'])
        if cspec['style'] == 'args':
            val = argvals[inp['_arg']]
        elif cspec['style'] == 'index':
            val = self.input_tasks[idx + (1 if cspec.get('_opt_first') else 0)].value
        else:
            t = self.input_tasks[inp['_lookup']]
            val = t.value
        saved_rerr, ST.rerr_at = ST.rerr_at, None      # the run body's own reading of an input value is user code, not a fault site
        try:
            reads[relname] = V.digest(V.canon_observed(inp['_kind'], val))
        finally:
            ST.rerr_at = saved_rerr
    if fault and fault[0] == 'raise_after_inputs':
        del ST.run_faults[slug]
        ST.fired.append(['runfault', slug, 'raise_after_inputs'])
        raise RunFault('injected: raise after inputs')
    params = {}
    for p in cspec['params']:
        if p.get('ignore') or p.get('placeholder'):
            continue
        if cspec['style'] == 'args':
            v = argvals[p['name']]
        elif cspec['style'] == 'index':
            v = self.params[p['name']]
        else:
            v = getattr(self.params, p['name'])
        params[p['name']] = A.canon_param(_pvalue(v))
    record = {'t': slug, 'p': params, 'i': reads}
    h = V.digest(record)
    rec['h'] = h
    kind = cspec['kind']
    # an external resource the body reads besides its declared inputs (the reason users force): its revision shapes the value
    rev = ST.rev.get(slug, 0)
    if rev:
        rec['rev'] = rev
    value = V.make_value_rev(kind, h, rev)
    for j in range(cspec.get('nlog', 0)):
        self.logger.info(f'marker {runid} step {j}')
        self.save_to_run_info({'marker': runid, 'n': j + 1})
    if not V.helper_thread_logs(slug + '/lazy'):
        # the standard idiom with lazily formatted arguments: the message shows the argument as it was when it was logged
        progress = {'done': 0}
        self.logger.info('marker %s progress %s', runid, progress)
        progress['done'] = 7
    if V.helper_thread_logs(slug):
        # part of the body's work is done by a helper thread it starts and joins (a pool, parallel_map): what that thread logs belongs to the run
        import threading
        th = threading.Thread(target=lambda: self.logger.info(f'marker {runid} helper thread'))
        th.start()
        th.join()
    if kind == 'cont':
        # resumable work: steps already present in the kept work directory are not redone
        data = self.get_data_object()
        cont_done = len(list(data.dir.glob('step_*')))
        rec['resumed_from'] = cont_done
    if fault and fault[0] == 'raise_before_return':
        del ST.run_faults[slug]
        ST.fired.append(['runfault', slug, 'raise_before_return'])
        if kind == 'dir':
            # the work of THIS failed attempt (numbered per location and process) - it is what has to be set aside
            nfail = ST.fail_n[(slug, key)] = ST.fail_n.get((slug, key), 0) + 1
            rec['partial'] = nfail
            V.write_dir_spec({'partial.txt': f'partial {nfail}'}, self.get_data_object().dir)
        if kind == 'cont' and cont_done < cspec.get('cont_steps', 1):
            (data.dir / f'step_{cont_done}').write_text(str(cont_done))
        raise RunFault('injected: raise before return')
    if fault and fault[0] == 'mistyped':
        del ST.run_faults[slug]
        ST.fired.append(['runfault', slug, 'mistyped'])
        if kind in ('gen', 'genlazy') and int(h[:1], 16) < 8:
            # an iterable that is not a generator (a mapping: iterating it would silently store its keys)
            return {'alice': 1, 'bob': 2, 'carol': 3}
        return _Mistyped()
    if fault and fault[0] == 'unserializable':
        del ST.run_faults[slug]
        ST.fired.append(['runfault', slug, 'unserializable'])
        if kind in ('dict',):
            value = dict(value)
            value['bad'] = {1, 2}
            return value
        if kind == 'list':
            return list(value) + [{1, 2}]
        if kind in ('gen', 'genlazy'):
            return (x for x in list(value) + [{1, 2}])
        if kind == 'listnp':
            # more arrays than the real value has, the last one not picklable: saving fails after files were written
            import numpy as np
            return list(value) + [np.zeros(1), np.array([lambda: 0], dtype=object)]
        # other kinds have no unserializable member of their type: behave as mistyped
        return _Mistyped()
    if kind in ('gen', 'genlazy'):
        at = fault[1] if fault and fault[0] == 'gen_raise' else None
        if at is not None:
            del ST.run_faults[slug]

        def _g():
            # records and log messages produced while the generator body runs (after `run` itself has returned) belong to this run too
            self.logger.info(f'marker {runid} gen')
            self.save_to_run_info({'marker': runid, 'n': 'gen'})
            if at is not None and not value:
                ST.fired.append(['runfault', slug, 'gen_raise'])
                raise RunFault('injected: generator raises')
            for i, x in enumerate(value):
                if at is not None and i >= min(at, len(value) - 1):
                    ST.fired.append(['runfault', slug, 'gen_raise'])
                    raise RunFault('injected: generator raises')
                yield x
        return _g()
    if kind == 'dir':
        data = self.get_data_object()
        # scratch file private to this attempt, removed before returning: work of a killed attempt must never be published
        scratch = data.dir / f'scratch_p{ST.proc}.tmp'   # named after the simulated process (not the run: run numbering inside set-ordered recomputes is arbitrary)
        scratch.write_text('work in progress')
        V.write_dir_spec(value, data.dir)
        scratch.unlink()
        return data
    if kind == 'cont':
        steps = cspec.get('cont_steps', 1)
        for sidx in range(cont_done, steps):
            (data.dir / f'step_{sidx}').write_text(str(sidx))
        for q in list(data.dir.iterdir()):
            if q.is_dir():
                import shutil
                shutil.rmtree(q)
            else:
                q.unlink()
        V.write_dir_spec(value, data.dir)
        data.finished()
        return data
    if kind == 'mem':
        return value
    if kind == 'memobj':
        return self.data_class(value)
    return value


class _Mistyped:
    pass


def build_classes(world):
    """create task classes of the world inside synthetic modules tcw.p<i>; returns list of classes by class id."""
    import numpy as np
    import pandas as pd
    from typing import Generator
    from taskchain import Task, ModuleTask, DoubleModuleTask, Parameter, InMemoryData
    from taskchain.parameter import InputTaskParameter
    from taskchain.data import DirData, ContinuesData, ListOfNumpyData, GeneratedDataLazy
    from taskchain.parameter import NO_DEFAULT

    pkg = types.ModuleType('tcw')
    pkg.__path__ = []
    sys.modules['tcw'] = pkg
    mods = {}
    for pi in range(len(world['pipelines'])):
        m = types.ModuleType(f'tcw.p{pi}')
        sys.modules[f'tcw.p{pi}'] = m
        setattr(pkg, f'p{pi}', m)
        mods[pi] = m
    from taskchain.parameter import AutoParameterObject
    om = types.ModuleType('tcw.objs')
    sys.modules['tcw.objs'] = om
    pkg.objs = om

    class PObj(AutoParameterObject):
        def __init__(self, a, b='x', verbose=False):
            self.a = a
            self._b = b
            self.verbose = verbose

    # public attribute with a derived value next to the stored constructor argument `_b`
    PObj.b = property(lambda self: 'derived<' + str(self._b) + '>')

    class PSub(PObj):
        """subclass overriding a persistence hook: `b` does not influence what it computes"""
        @staticmethod
        def ignore_persistence_args():
            return ['verbose', 'debug', 'b']

    class PDef(AutoParameterObject):
        def __init__(self, c=1, d=None, debug=False, window=(3, 5)):
            self.c = c
            self.d = d
            self.debug = debug
            self.window = window       # a tuple-valued default, never spelled in configs: part of the representation as it is

        @staticmethod
        def dont_persist_default_value_args():
            return ['d']

    class POpt(AutoParameterObject):
        """options passed through **kwargs are constructor arguments like any other"""
        def __init__(self, a, **options):
            self.a = a
            self.options = options

    class PSet(AutoParameterObject):
        def __init__(self, tags):
            self.tags = set(tags)

    from taskchain.parameter import IgnoreForPersistence

    class PHook(AutoParameterObject, IgnoreForPersistence):
        """helper object (progress printer, debug hook) that has no influence on what is computed"""
        def __init__(self, every=1):
            self.every = every

    class PCb(AutoParameterObject):
        """takes a container of values and helper objects; the helpers are not part of the computation at any depth"""
        def __init__(self, a, hooks=None):
            self.a = a
            self.hooks = hooks

    for k in (PObj, PSub, PDef, PSet, POpt, PHook, PCb):
        k.__module__ = 'tcw.objs'
        setattr(om, k.__name__, k)
    class MemBox(InMemoryData):
        """user-defined in-memory data object; sized, hence falsy when empty"""
        def __init__(self, payload=None):
            super().__init__()
            self.payload = [] if payload is None else payload

        def __len__(self):
            return len(self.payload)

    ret_types = {'memobj': MemBox, 'int': int, 'float': float, 'str': str, 'bool': bool, 'dict': dict, 'list': list, 'ndarray': np.ndarray,
                 'frame': pd.DataFrame, 'series': pd.Series, 'gen': Generator, 'genlazy': Generator, 'dir': DirData,
                 'cont': ContinuesData, 'listnp': list, 'mem': dict}
    bases = {'Task': Task, 'ModuleTask': ModuleTask, 'DoubleModuleTask': DoubleModuleTask}
    out = []
    for cid, c in enumerate(world['classes']):
        # annotate inputs with lookup helpers
        for inp in c['inputs']:
            if inp.get('optional') == 'absent':
                continue
            tgt = world['classes'][inp['cls']]
            inp['_slug'] = tgt['slug']
            inp['_kind'] = tgt['kind']
            inp['_arg'] = tgt['name']
            inp['_lookup'] = tgt['name']
        meta = {}
        in_list = []
        par_list = []
        for p in c['params']:
            kw = {}
            if p['default'] != A.NO_DEFAULT:
                kw['default'] = A.decode_value(p['default']['v'])
            if p.get('ignore'):
                kw['ignore_persistence'] = True
            if p.get('dpd'):
                kw['dont_persist_default_value'] = True
            if p.get('nic'):
                kw['name_in_config'] = p['nic']
            if p.get('dtype'):
                kw['dtype'] = {'int': int, 'str': str, 'float': float, 'bool': bool, 'list': list, 'dict': dict, 'Path': Path}[p['dtype']]
                if p.get('pathobj_default') and isinstance(kw.get('default'), str):
                    kw['default'] = Path(kw['default'])
            par_list.append(Parameter(p['name'], **kw))
        seen_patterns = set()
        for inp in c['inputs']:
            if inp.get('form') == 'pattern':
                if inp['pattern'] not in seen_patterns:
                    seen_patterns.add(inp['pattern'])
                    in_list.append('~' + inp['pattern'])
                continue
            if inp.get('optional') == 'absent':
                ref = inp['name']
            else:
                tgt = world['classes'][inp['cls']]
                if inp['form'] == 'class':
                    ref = out[inp['cls']]
                elif inp['form'] == 'slug':
                    ref = A.fullname(inp.get('rel') or None, tgt['slug'])
                else:
                    ref = A.fullname(inp.get('rel') or None, tgt['name'])
            if inp.get('optional') == 'absent' and c['style'] == 'index' and V.pick('optfirst', c['slug'], 180):
                # an optional input that the chain does not have, declared in front of the regular inputs: it keeps its position in
                # the documented order ("order is given by order in Meta"), the inputs after it are read at index + 1
                opt_first = InputTaskParameter(ref, default=None)
                c['_opt_first'] = True
            elif inp.get('optional'):
                par_list.append(InputTaskParameter(ref, default=None))
            else:
                in_list.append(ref)
        if c.get('_opt_first'):
            in_list.insert(0, opt_first)
        meta['input_tasks'] = in_list
        meta['parameters'] = par_list
        if c.get('meta_name'):
            meta['name'] = c['meta_name']
        if c.get('group') and c['base'] == 'Task':
            meta['task_group'] = c['group']
        if c.get('stray_group') and c['base'] == 'ModuleTask':
            meta['task_group'] = c['stray_group']
        kind = c['kind']
        if kind == 'mem':
            meta['data_class'] = InMemoryData
        elif kind == 'listnp':
            meta['data_class'] = ListOfNumpyData
        elif kind == 'genlazy':
            meta['data_class'] = GeneratedDataLazy
        Meta = type('Meta', (), meta)
        # run method with the right signature
        if c['style'] == 'args':
            argnames = [inp['_arg'] for i, inp in enumerate(c['inputs']) if inp.get('optional') != 'absent' and i in c['reads']]
            argnames += [p['name'] for p in c['params'] if not p.get('ignore') and not p.get('placeholder')]
        else:
            argnames = []
        src = f"def run(self{''.join(', ' + a for a in argnames)}) -> RT:\n    return _generic_run(self, CSPEC, dict({', '.join(f'{a}={a}' for a in argnames)}))\n"
        g = {'RT': ret_types[kind], '_generic_run': _generic_run, 'CSPEC': c}
        exec(src, g)
        parent = out[c['pybase']] if c.get('pybase') is not None else bases[c['base']]
        cls = type(parent)(c['py'], (parent,), {'Meta': Meta, 'run': g['run'], '__module__': f'tcw.p{c["pipe"]}'})
        setattr(mods[c['pipe']], c['py'], cls)
        out.append(cls)
    return out


# ------------------------------------------------------------------------------------------------- rendering configs

def _perm(items, seed):
    import random
    items = list(items)
    random.Random(seed).shuffle(items)
    return items


def _vary_objs(v, rnd):
    """computation-preserving respelling of parameter-object definitions: kwargs key order, ignored arguments
    (verbose/debug), default-valued arguments spelled or omitted"""
    if isinstance(v, dict) and 'class' in v:
        kw = {k: _vary_objs(x, rnd) for k, x in (v.get('kwargs') or {}).items()}
        cname = v['class'].split('.')[-1]
        ign = {'PObj': 'verbose', 'PSub': 'verbose', 'PDef': 'debug'}.get(cname)
        if ign:
            if rnd.random() < 0.5:
                kw[ign] = rnd.random() < 0.5
            else:
                kw.pop(ign, None)
        if cname == 'PCb' and kw.get('hooks') is not None:
            kw['hooks'] = _vary_hooks(kw['hooks'], rnd)
        for dk, dv in A.OBJ_DEFAULTS.get(cname, {}).items():
            if dk in kw and kw[dk] == dv and type(kw[dk]) is type(dv) and rnd.random() < 0.5:
                del kw[dk]
            elif dk not in kw and rnd.random() < 0.5:
                kw[dk] = dv
        items = list(kw.items())
        rnd.shuffle(items)
        return {'class': v['class'], 'kwargs': dict(items)}
    if isinstance(v, list):
        return [_vary_objs(x, rnd) for x in v]
    if isinstance(v, dict):
        items = [(k, _vary_objs(x, rnd)) for k, x in v.items()]
        rnd.shuffle(items)
        return dict(items)
    return v


def _is_hook(x):
    return isinstance(x, dict) and str(x.get('class', '')).endswith('.PHook')


def _vary_hooks(v, rnd):
    """other helper objects (ignored for persistence) at the same places of a container: changed, dropped, added"""
    if isinstance(v, list):
        out = []
        for x in v:
            if _is_hook(x):
                t = rnd.random()
                if t < 0.3:
                    continue
                if t < 0.7:
                    x = {'class': x['class'], 'kwargs': {'every': rnd.choice([1, 2, 5, 10])}}
                out.append(x)
            else:
                out.append(_vary_hooks(x, rnd))
        if rnd.random() < 0.3:
            out.insert(rnd.randint(0, len(out)), {'class': 'tcw.objs.PHook', 'kwargs': {'every': rnd.choice([1, 3])}})
        return out
    if isinstance(v, dict) and 'class' not in v:
        return {k: (_vary_hooks(x, rnd) if not _is_hook(x) else {'class': x['class'], 'kwargs': {'every': rnd.choice([1, 2, 7])}}) for k, x in v.items()}
    return v


class Renderer:
    """turns (world, root, render spec) into taskchain Config objects / files."""

    def __init__(self, world, classes, cfgdir: Path, store: Path):
        self.world = world
        self.classes = classes
        self.cfgdir = cfgdir
        self.store = store

    def tasks_field(self, cfg, render):
        pipe = self.world['pipelines'][cfg['pipe']]
        form = render.get('tasks_form', 'class')
        cids = _perm(pipe['classes'], render.get('perm', 0)) if render.get('perm') else list(pipe['classes'])
        if form == 'wildcard':
            return [f'tcw.p{cfg["pipe"]}.*']
        if form == 'string' or render['form'] != 'mem':
            return [f'tcw.p{cfg["pipe"]}.{self.world["classes"][c]["py"]}' for c in cids]
        return [self.classes[c] for c in cids]

    def cfg_data(self, ci, render, moved):
        cfg = self.world['configs'][ci]
        vals = dict(cfg['values'])
        for k in moved.get(ci, ()):  # values moved to the context by a computation-preserving rewriting
            vals.pop(k, None)
        if render.get('spell_defaults'):
            for cid in self.world['pipelines'][cfg['pipe']]['classes']:
                for p in self.world['classes'][cid]['params']:
                    key = p.get('nic') or p['name']
                    if key not in cfg['values'] and p['default'] != A.NO_DEFAULT and not p.get('nospell'):
                        vals[key] = A.decode_value(p['default']['v'])
        for k, v in (render.get('extra', {}) or {}).items():
            vals.setdefault(k, v)
        for k, v in (render.get('ignored_values', {}) or {}).items():
            if k in self._ignored_keys(cfg):
                vals[k] = v
        if render.get('obj_var'):
            import random
            rnd = random.Random(render['obj_var'] * 1000 + ci)
            vals = {k: _vary_objs(v, rnd) for k, v in vals.items()}
        items = list(vals.items())
        if render.get('perm'):
            items = _perm(items, render['perm'] + ci)
        data = {}
        first = render.get('perm', 0) % 2 == 0
        if first:
            data['tasks'] = self.tasks_field(cfg, render)
        for k, v in items:
            data[k] = A.decode_value(v)
        if not first:
            data['tasks'] = self.tasks_field(cfg, render)
        return data

    def _ignored_keys(self, cfg):
        out = set()
        for cid in self.world['pipelines'][cfg['pipe']]['classes']:
            for p in self.world['classes'][cid]['params']:
                if p.get('ignore'):
                    out.add(p.get('nic') or p['name'])
        return out

    def build(self, root_index, render):
        """-> taskchain Config for the root (fresh objects / freshly written files)."""
        from taskchain import Config
        world = self.world
        root = world['roots'][root_index]
        ctx, moved = self.context(root, render)
        gv = render.get('global_vars')
        form = render['form']
        outer = render.get('outer_ns')
        tag = render.get('file_tag', 't0')
        name_suffix = render.get('name_suffix', '')
        if form == 'mem':
            def mk(ci, top=False):
                cfg = world['configs'][ci]
                data = self.cfg_data(ci, render, moved)
                uses = []
                pipe = world['pipelines'][cfg['pipe']]
                slots = list(zip(pipe['slots'], cfg['fills']))
                if render.get('perm'):
                    slots = _perm(slots, render['perm'] + 7 * ci)
                for slot, fill in slots:
                    sub = mk(fill)
                    if slot['ns']:
                        sub.namespace = slot['ns']
                    uses.append(sub)
                if uses:
                    data['uses'] = uses
                if top:
                    return Config(self.store, name=render.get('root_name') or (cfg['name'] + name_suffix), data=data, context=ctx, global_vars=gv)
                return Config(self.store, name=cfg['name'] + name_suffix, data=data, global_vars=gv)
            if outer:
                inner = mk(root['cfg'])
                inner.namespace = outer
                return Config(self.store, name='outer' + name_suffix, data={'uses': [inner]}, context=ctx, global_vars=gv)
            return mk(root['cfg'], top=True)
        # file forms
        d = self.cfgdir / tag
        d.mkdir(parents=True, exist_ok=True)
        ext = 'json' if form in ('json', 'multi_json') else 'yaml'
        written = {}
        multi = form.startswith('multi')
        parts = {}
        multi_path = d / f'all{name_suffix}.{ext}'

        def path_of(ci):
            if ci == root['cfg'] and render.get('root_name') and not outer:
                return d / f'{render["root_name"]}.{ext}'
            return d / f'{world["configs"][ci]["name"]}{name_suffix}.{ext}'

        def wr(ci):
            if ci in written:
                return written[ci]
            cfg = world['configs'][ci]
            data = self.cfg_data(ci, render, moved)
            pipe = world['pipelines'][cfg['pipe']]
            uses = []
            slots = list(zip(pipe['slots'], cfg['fills']))
            if render.get('perm'):
                slots = _perm(slots, render['perm'] + 7 * ci)
            for slot, fill in slots:
                p = wr(fill)
                if multi:
                    ref = str(p)        # '#part' reference, resolved inside the multi-config file
                else:
                    ref = str(p) if not render.get('uses_placeholder') else str(p).replace(str(self.cfgdir), '{CFG_DIR}')
                uses.append(f'{ref} as {slot["ns"]}' if slot['ns'] else ref)
            if uses:
                data['uses'] = uses if len(uses) > 1 or render.get('perm', 0) % 3 else uses[0]
            if multi:
                part = f'{cfg["name"]}{name_suffix}'
                parts[part] = data
                written[ci] = '#' + part
                return written[ci]
            p = path_of(ci)
            self._dump(p, data, ext)
            written[ci] = p
            return p
        top = wr(root['cfg'])
        if multi:
            root_part = top[1:]
            if render.get('main_part', True):
                parts[root_part]['main_part'] = True
                top = multi_path
            else:
                top = f'{multi_path}#{root_part}'
            items = list(parts.items())
            if render.get('perm'):
                items = _perm(items, render['perm'])
            self._dump(multi_path, {'configs': dict(items)}, ext)
        if render.get('uses_placeholder') and not multi:
            gv = dict(gv or {})
            gv['CFG_DIR'] = str(self.cfgdir)
        if outer:
            p = d / f'outer{name_suffix}.{ext}'
            self._dump(p, {'uses': f'{top} as {outer}'}, ext)
            top = p
        if render.get('ctx_form') == 'file' and ctx is not None:
            cp = d / f'ctx{name_suffix}.{ext}'
            self._dump(cp, ctx, ext)
            ctx = cp
        elif render.get('ctx_form') == 'list' and ctx is not None:
            ctx = self._split_ctx(ctx, d, ext, name_suffix)
        elif render.get('ctx_form') == 'uses' and ctx is not None:
            # per-namespace entries as separate context files pulled in by `uses: "<file> as <namespace>"`
            fns = ctx.pop('for_namespaces', {})
            uses = []
            for k_, (ns_, vals_) in enumerate(sorted(fns.items())):
                fp = d / f'ctxuse{k_}{name_suffix}.{ext}'
                self._dump(fp, vals_, ext)
                uses.append(f'{fp} as {ns_}')
            if uses:
                ctx['uses'] = uses if len(uses) > 1 else uses[0]
            cp = d / f'ctxmain{name_suffix}.{ext}'
            self._dump(cp, ctx, ext)
            ctx = cp
        return Config(self.store, top, context=ctx, global_vars=gv)

    def _dump(self, p, data, ext):
        import yaml
        with open(p, 'w') as f:
            if ext == 'json':
                json.dump(data, f)
            else:
                yaml.safe_dump(data, f, sort_keys=False)

    def _split_ctx(self, ctx, d, ext, suffix):
        """one context as a list of several (later wins): split entries, add an overridden decoy in the first."""
        keys = [k for k in ctx if k != 'for_namespaces']
        first = {k: '__overridden__' for k in keys[:1]}
        second = {k: ctx[k] for k in keys}
        out = []
        if first:
            out.append(first)
        if 'for_namespaces' in ctx:
            p = d / f'ctxns{suffix}.{ext}'
            self._dump(p, {'for_namespaces': ctx['for_namespaces']}, ext)
            out.append(p)
        out.append(second)
        return out

    def context(self, root, render):
        """-> (context data dict or None, moved: {cfg index: set(keys)})"""
        ov = root.get('overrides') or {}
        glob = A.decode_value(ov.get('global', {}))
        for_ns = A.decode_value(ov.get('for_ns', {}))
        moved = {}
        outer = render.get('outer_ns')
        for mv in render.get('moves', []) or []:
            # {'ns': ns or None, 'cfg': ci, 'key': k, 'to': 'global'|'ns'}
            ci, key = mv['cfg'], mv['key']
            val = A.decode_value(self.world['configs'][ci]['values'][key])
            if mv['to'] == 'global':
                glob.setdefault(key, val)
            else:
                for_ns.setdefault(mv['ns'], {}).setdefault(key, val)
            moved.setdefault(ci, set()).add(key)
        if not glob and not for_ns and not render.get('force_ctx'):
            return None, moved
        ctx = dict(glob)
        if for_ns:
            ctx['for_namespaces'] = {A.join_ns(outer, ns): v for ns, v in for_ns.items()}
        return ctx, moved


# ------------------------------------------------------------------------------------------------- operations

class Proc:
    def __init__(self, job):
        self.job = job
        self.world = job['world']
        self.root = Path(job['root'])
        self.stores = self.root / 'stores'
        self.cfgdir = self.root / 'cfg'
        self.chain_store = {}
        self.chains = {}
        self.multis = {}
        self.tokens = {}
        self.keepalive = []
        self.registries = {}
        self.classes = None
        self.renderer = None
        self.kind_of_slug = {c['slug']: c['kind'] for c in self.world['classes']}
        self.kind_of_py = {c['py']: c['kind'] for c in self.world['classes']}

    def token(self, obj):
        # keep every task object alive: a freed object's address (id) could be reused by a later one
        if id(obj) not in self.tokens:
            self.keepalive.append(obj)
        return self.tokens.setdefault(id(obj), len(self.tokens))

    def describe(self, chain):
        out = {}
        for name, t in chain.tasks.items():
            d = {'obj': self.token(t), 'tfull': t.fullname, 'slug': t.slugname, 'forced': t.is_forced, 'dc': t.data_class.__name__}
            try:
                d['key'] = t.name_for_persistence
                d['prepr'] = str(t.params.repr)[:400]
            except Exception as e:
                d['key_err'] = [type(e).__name__, str(e)[:200]]
            d['inputs'] = {n: (self.token(x) if hasattr(x, 'fullname') else None) for n, x in t.input_tasks.items()}
            out[name] = d
        return out

    def flags(self, chain):
        return {name: t.is_forced for name, t in chain.tasks.items()}

    # --- ops
    def op_build(self, op):
        ST.active = False
        self.renderer.store = self.stores / op.get('store', 'main')
        self.renderer.store.mkdir(parents=True, exist_ok=True)
        self.chain_store[op['cid']] = self.renderer.store
        cfg = self.renderer.build(op['root'], op['render'])
        ST.active = True
        try:
            if op.get('registry'):
                # chains sharing task objects through an explicit registry (what MultiChain does internally)
                from taskchain import Chain
                reg = self.registries.setdefault(op['registry'], {})
                chain = Chain(cfg, shared_tasks=reg, parameter_mode=op.get('pmode', True))
            else:
                chain = cfg.chain(parameter_mode=op.get('pmode', True))
        except Exception as e:
            return {'err': [type(e).__name__, str(e)[:300]]}
        self.chains[op['cid']] = chain
        return {'tasks': self.describe(chain)}

    def op_mbuild(self, op):
        from taskchain import MultiChain
        ST.active = False
        self.renderer.store = self.stores / op.get('store', 'main')
        self.renderer.store.mkdir(parents=True, exist_ok=True)
        cfgs = [self.renderer.build(m['root'], m['render']) for m in op['members']]
        ST.active = True
        try:
            mc = MultiChain(cfgs, parameter_mode=op.get('pmode', True))
        except Exception as e:
            return {'err': [type(e).__name__, str(e)[:300]]}
        self.multis[op['mid']] = mc
        names = [c.name for c in cfgs]
        out = {}
        for k, name in enumerate(names):
            ch = mc[name]
            self.chains[f'{op["mid"]}/{k}'] = ch
            self.chain_store[f'{op["mid"]}/{k}'] = self.renderer.store
            out[str(k)] = self.describe(ch)
        return {'chains': out, 'names': names}

    def op_req(self, op):
        chain = self.chains.get(op['cid'])
        if chain is None:
            return {'skip': 'no chain'}
        try:
            via = op.get('via', 'item')
            if via == 'attr' and op['task'].isidentifier():
                t = getattr(chain, op['task'])
            elif via == 'get':
                t = chain.get(op['task'])
            elif via == 'tasks':
                t = chain.tasks[op.get('name', op['task'])]
            else:
                t = chain[op['task']]
        except Exception as e:
            return {'lookup_err': [type(e).__name__, str(e)[:300]]}
        if t is None:
            return {'lookup_err': ['None', 'chain returned None']}
        try:
            v = t.value
        except BaseException as e:
            if isinstance(e, (SystemExit, KeyboardInterrupt)):
                raise
            return {'err': [type(e).__name__, str(e)[:300]], 'obj': self.token(t)}
        ST.active = False      # canonicalisation reads directory values; that is the harness, not taskchain
        res = {'ok': V.canon_observed(self.kind_of_py[type(t).__name__], v), 'obj': self.token(t)}
        if op.get('mutate'):
            # a caller scribbling over the value it was handed must not reach what other chains load
            res['mutated'] = _scribble(v)
        return res

    def op_insp(self, op):
        chain = self.chains.get(op['cid'])
        if chain is None:
            return {'skip': 'no chain'}
        kind = op['kind']
        names = op.get('tasks') or list(chain.tasks)
        out = {}
        try:
            if kind == 'has_data':
                for n in names:
                    out[n] = bool(chain.tasks[n].has_data)
            elif kind == 'data_path':
                for n in names:
                    p = chain.tasks[n].data_path
                    out[n] = None if p is None else os.path.relpath(str(p), str(self.chain_store[op['cid']]))
            elif kind == 'run_info':
                for n in names:
                    out[n] = _jsonable(chain.tasks[n].run_info)
            elif kind == 'log':
                for n in names:
                    out[n] = chain.tasks[n].log
            elif kind == 'tasks_df':
                df = chain.tasks_df
                out = {'shape': list(df.shape), 'computed': {str(k): (None if v is None else bool(v)) for k, v in df['computed'].items()}}
            elif kind == 'links':
                chain.create_readable_filenames(name=op.get('name'), keep_existing=op.get('keep', False))
                out = {'done': True}
            elif kind == 'repr':
                out = {'str': str(chain).count('\n') + 1, 'repr': repr(chain)[:50], 'md': len(chain._repr_markdown_()) > 0}
            elif kind == 'flags':
                out = self.flags(chain)
            else:
                return {'skip': 'unknown kind'}
        except Exception as e:
            return {'err': [type(e).__name__, str(e)[:300]], 'partial': out}
        return {'ok': out}

    def op_tforce(self, op):
        chain = self.chains.get(op['cid'])
        if chain is None:
            return {'skip': 'no chain'}
        try:
            chain[op['task']].force(delete_data=op.get('delete', False))
        except Exception as e:
            return {'err': [type(e).__name__, str(e)[:300]], 'flags': self.flags(chain)}
        return {'flags': self.flags(chain)}

    def op_cforce(self, op):
        chain = self.chains.get(op['cid'])
        if chain is None:
            return {'skip': 'no chain'}
        tasks = op['tasks'] if len(op['tasks']) != 1 or not op.get('single_as_str') else op['tasks'][0]
        if op.get('as_objects'):
            tasks = [chain[t] for t in op['tasks']] if not isinstance(tasks, str) else chain[tasks]
        try:
            chain.force(tasks, recompute=op.get('recompute', False), delete_data=op.get('delete', False))
        except Exception as e:
            return {'err': [type(e).__name__, str(e)[:300]], 'flags': self.flags(chain)}
        return {'flags': self.flags(chain)}

    def op_mforce(self, op):
        mc = self.multis.get(op['mid'])
        if mc is None:
            return {'skip': 'no multichain'}
        try:
            tasks = op['tasks'] if len(op['tasks']) != 1 or not op.get('single_as_str') else op['tasks'][0]
            mc.force(tasks, recompute=op.get('recompute', False), delete_data=op.get('delete', False))
        except Exception as e:
            return {'err': [type(e).__name__, str(e)[:300]]}
        return {'flags': {k: self.flags(ch) for k, ch in self.chains.items() if k.startswith(op['mid'] + '/')}}

    def op_armrun(self, op):
        ST.run_faults[op['slug']] = [op['kind'], op.get('at')]
        return {'armed': True}

    def op_wait(self, op):
        """this simulated process stays alive, doing nothing, while another one runs from start to end"""
        import time as _t
        ST.active = False
        base = Path(ST.root)
        (base / f'at_wait_{op["k"]}').write_text('x')
        deadline = _t.monotonic() + 45
        while not (base / f'resume_{op["k"]}').exists():
            if _t.monotonic() > deadline:
                return {'harness_error': 'wait was never resumed'}
            _t.sleep(0.0005)
        return {'ok': True}

    def op_rev(self, op):
        ST.rev = dict(op['map'])
        return {'ok': True}

    def op_disarm(self, op):
        ST.run_faults.clear()
        return {'ok': True}

    def op_quietlog(self, op):
        # the user silences logging process-wide: runs then emit nothing into their log files
        logging.disable(logging.CRITICAL if op.get('on', True) else logging.NOTSET)
        return {'ok': True}

    def op_drop(self, op):
        self.chains.pop(op['cid'], None)
        return {'ok': True}

    def op_ls(self, op):
        ST.active = False
        return {'ls': listing(self.stores / op.get('store', 'main'))}

    def op_migrate(self, op):
        from taskchain.utils.migration import migrate_to_parameter_mode
        import contextlib
        ST.active = False
        self.renderer.store = self.stores / op.get('store', 'src')
        self.renderer.store.mkdir(parents=True, exist_ok=True)
        cfg = self.renderer.build(op['root'], op['render'])
        ST.active = True
        if op.get('prechain'):
            # the caller has already built a (parameter-mode) chain from this very config object
            cfg.chain()
        target = self.stores / op['target']
        buf = io.StringIO()
        try:
            with contextlib.redirect_stdout(buf):
                migrate_to_parameter_mode(cfg, target, dry=op.get('dry', True), verbose=op.get('verbose', False))
        except Exception as e:
            return {'err': [type(e).__name__, str(e)[:300]]}
        return {'ok': True, 'out_lines': buf.getvalue().count('\n')}


def _scribble(v):
    try:
        import numpy as np
        import pandas as pd
        if isinstance(v, dict):
            v['__scribble__'] = 1
            return 'dict'
        if isinstance(v, list):
            v.append('__scribble__')
            return 'list'
        if isinstance(v, np.ndarray) and v.size and v.flags.writeable and v.dtype.kind in 'iuf':
            v[...] = 1
            return 'ndarray'
        if isinstance(v, pd.DataFrame) and v.shape[0] and v.shape[1]:
            v.iloc[:, 0] = v.iloc[::-1, 0].to_numpy()
            v['__scribble__'] = 0
            return 'frame'
    except Exception as e:
        return 'failed:' + type(e).__name__
    return None


def _jsonable(x):
    try:
        json.dumps(x)
        return x
    except Exception:
        return json.loads(json.dumps(x, default=lambda o: {'$repr': repr(o)[:200]}))


def listing(base: Path):
    out = {}
    base = Path(base)
    if not base.exists():
        return out
    for q in sorted(base.rglob('*')):
        rel = q.relative_to(base).as_posix()
        if q.is_symlink():
            out[rel] = 'link:' + os.readlink(q)
        elif q.is_dir():
            out[rel] = None
        else:
            b = q.read_bytes()
            out[rel] = [len(b), V.sha(b)]
    return out


def run_process(job, out_fd):
    """entry point inside the forked child."""
    ST.out_fd = out_fd
    ST.proc = job['proc']
    ST.root = job['root']
    ST.store = os.path.join(job['root'], 'stores') + '/'
    from taskchain import Chain
    Chain.log_handler.setLevel(100)
    logging.getLogger().setLevel(100)
    logging.getLogger('cache').setLevel(100)
    install_clock(job['proc'])
    pr = Proc(job)
    pr.stores = Path(ST.store)
    (pr.stores / 'main').mkdir(parents=True, exist_ok=True)
    pr.cfgdir.mkdir(parents=True, exist_ok=True)
    pr.classes = build_classes(job['world'])
    pr.renderer = Renderer(job['world'], pr.classes, pr.cfgdir, pr.stores / 'main')
    sys.addaudithook(_hook)
    install_open_seam()
    cover = None
    if os.environ.get('TCSIM_COVER'):
        # diagnostic only: which lines of taskchain does the simulation execute
        cover = set()
        import taskchain as _tc
        base = os.path.dirname(_tc.__file__)

        def _tr(frame, event, arg):
            fn = frame.f_code.co_filename
            if not fn.startswith(base):
                return None
            if event == 'line':
                cover.add((fn[len(base) + 1:], frame.f_lineno))
            return _tr
        sys.settrace(_tr)
    for op in job['ops']:
        ST.inv = []
        ST.fs = []
        ST.fired = []
        ST.last_wopen = None
        c = op.get('crash')
        ST.crash_at = c['k'] if c else None
        ST.crash_when = (c or {}).get('when', 'before')
        ST.crash_wlimit = (c or {}).get('wlimit')
        e = op.get('diskerr')
        ST.err_at = e['k'] if e and not e.get('read') else None
        ST.rerr_at = e['k'] if e and e.get('read') else None
        ST.err_no = getattr(errno, e['errno']) if e else None
        ST.werr_limit = e.get('wlimit') if e else None
        ST.werr_close = bool(e and e.get('at_close'))
        ST.werr_path = None
        clock0 = ST.clock.base + ST.clock.ticks
        ST.active = True
        try:
            res = getattr(pr, 'op_' + op['op'])(op)
        except KeyboardInterrupt:
            if ST.interrupted is None:
                raise
            ST.active = False
            rec_ = dict(ST.interrupted, inv=ST.inv, fs=ST.fs, fired=ST.fired)
            _emit(rec_)
            os._exit(CRASH_EXIT)
        except Exception:
            res = {'harness_error': traceback.format_exc()[-1500:]}
        ST.active = False
        if ST.interrupted is not None:
            # the code under test swallowed the interrupt: the process still ends here
            _emit(dict(ST.interrupted, inv=ST.inv, fs=ST.fs, fired=ST.fired))
            os._exit(CRASH_EXIT)
        ST.crash_at = None
        sys.setprofile(None)
        ST.err_at = None
        ST.rerr_at = None
        ST.werr_path = None
        _emit({'i': op['i'], 'res': res, 'inv': ST.inv, 'fs': ST.fs, 'fired': ST.fired, 'clock': [clock0, ST.clock.base + ST.clock.ticks]})
    if cover is not None:
        sys.settrace(None)
        _emit({'done': True, 'cover': sorted(cover)})
        return
    _emit({'done': True})
