"""Parent-side executor of storesim scenarios: routes each simulated process to the zygote of its hash seed, applies
post-crash tears, collects the observation stream.  Pure function of (scenario, code under test)."""
import json
import os
import select
import shutil
import signal
import subprocess
import sys
import time
from pathlib import Path

HASH_SEEDS = ['0', '1', '424242']
VERIF = str(Path(__file__).resolve().parents[2])
PY = sys.executable


COVER = set()


class HarnessError(Exception):
    pass


def repo_src():
    return os.path.join(os.environ.get('TCSIM_REPO', '/repo'), 'src')


class Zygotes:
    def __init__(self):
        self.procs = {}

    def get(self, hs, tree=None):
        src = repo_src() if not tree else os.path.join(VERIF, 'golden', {'v140': 'taskchain-1.4.0'}[tree], 'src')
        hs_key = hs
        hs = (hs_key, tree)
        p = self.procs.get(hs)
        if p is not None and p.poll() is None:
            return p
        env = dict(os.environ)
        env['PYTHONHASHSEED'] = HASH_SEEDS[hs_key]
        env['OPENBLAS_NUM_THREADS'] = '1'
        env['PYTHONDONTWRITEBYTECODE'] = '1'
        p = subprocess.Popen([PY, '-X', 'faulthandler', os.path.join(VERIF, 'tcsim/storesim/zygote.py'), src, VERIF],
                             stdin=subprocess.PIPE, stdout=subprocess.PIPE, env=env, start_new_session=True,
                             stderr=None if os.environ.get('TCSIM_DEBUG') else subprocess.DEVNULL)
        line = self._readline(p, 120)
        if not line or b'ready' not in line:
            raise HarnessError(f'zygote hs={hs} failed to start: {line!r}')
        self.procs[hs] = p
        return p

    def _readline(self, p, timeout):
        fd = p.stdout.fileno()
        buf = b''
        deadline = time.monotonic() + timeout
        while not buf.endswith(b'\n'):
            rem = deadline - time.monotonic()
            if rem <= 0:
                return None
            r, _, _ = select.select([fd], [], [], rem)
            if not r:
                return None
            b = os.read(fd, 1)
            if not b:
                return buf or None
            buf += b
        return buf

    def _readn(self, p, n, timeout):
        fd = p.stdout.fileno()
        chunks = []
        deadline = time.monotonic() + timeout
        while n > 0:
            rem = deadline - time.monotonic()
            if rem <= 0:
                return None
            r, _, _ = select.select([fd], [], [], rem)
            if not r:
                return None
            b = os.read(fd, min(n, 1 << 16))
            if not b:
                return None
            chunks.append(b)
            n -= len(b)
        return b''.join(chunks)

    def run(self, hs, job, timeout=60, tree=None):
        self.start(hs, job, timeout, tree)
        return self.finish(hs, timeout, tree)

    def start(self, hs, job, timeout=60, tree=None):
        p = self.get(hs, tree)
        hs = (hs, tree)
        job = dict(job)
        job['timeout'] = timeout
        try:
            p.stdin.write(json.dumps(job).encode() + b'\n')
            p.stdin.flush()
        except BrokenPipeError:
            self.kill(hs)
            raise HarnessError('zygote pipe broken')

    def ended(self, hs, tree=None):
        """has the simulated process started on this zygote already ended (its report is waiting)?"""
        p = self.procs.get((hs, tree))
        if p is None or p.poll() is not None:
            return True
        r, _, _ = select.select([p.stdout.fileno()], [], [], 0)
        return bool(r)

    def finish(self, hs, timeout=60, tree=None):
        p = self.get(hs, tree)
        hs = (hs, tree)
        head = self._readline(p, timeout + 10)
        if head is None:
            self.kill(hs)
            raise HarnessError('timeout waiting for simulated process')
        try:
            h = json.loads(head)
        except Exception:
            self.kill(hs)
            raise HarnessError(f'bad zygote header {head[:200]!r}')
        data = self._readn(p, h['n'], 30) if h['n'] else b''
        if data is None:
            self.kill(hs)
            raise HarnessError('timeout reading observations')
        lines = [json.loads(x) for x in data.split(b'\n') if x]
        return h['status'], lines

    def kill(self, hs):
        p = self.procs.pop(hs, None)
        if p is not None:
            try:
                os.killpg(p.pid, signal.SIGKILL)
            except Exception:
                pass
            try:
                p.wait(5)
            except Exception:
                pass

    def close(self):
        for hs in list(self.procs):
            p = self.procs.get(hs)
            try:
                p.stdin.close()
                p.wait(3)
            except Exception:
                pass
            self.kill(hs)


def scratch_base():
    base = os.environ.get('TCSIM_SCRATCH') or ('/dev/shm' if os.access('/dev/shm', os.W_OK) else '/var/tmp')
    return base


def execute(scn, zy: Zygotes, keep=False):
    """-> observations: list of dicts (per op, plus {'crash':..} / {'proc_end':..} markers)."""
    import tempfile
    root = tempfile.mkdtemp(prefix='tcsim-', dir=scratch_base())
    obs = []
    try:
        for pi, proc in enumerate(scn['procs']):
            if proc.get('parent'):
                from . import parentops
                for op in proc['ops']:
                    obs.append({'i': op['i'], 'res': parentops.run(op, scn, root), 'inv': [], 'fs': [], 'fired': []})
                continue
            if proc.get('nested'):
                continue        # runs while another simulated process is parked at its `wait` operation
            _run_proc(scn, zy, root, pi, proc, obs)
    finally:
        if not keep:
            shutil.rmtree(root, ignore_errors=True)
    # world-root path prefix is the only run-specific string that can reach an observation (error messages)
    return json.loads(json.dumps(obs).replace(root, '<ROOT>'))


def _run_proc(scn, zy, root, pi, proc, obs):
            job = {'world': scn['world'], 'root': root, 'proc': pi, 'ops': proc['ops']}
            waits = [op for op in proc['ops'] if op['op'] == 'wait']
            if not waits:
                status, lines = zy.run(proc.get('hs', 0), job, tree=proc.get('tree'))
            else:
                # two simulated processes alive at once: this one parks at each `wait`, the nested one runs from start to end, this one goes on
                zy.start(proc.get('hs', 0), job, tree=proc.get('tree'))
                for w in waits:
                    flag = os.path.join(root, f'at_wait_{w["k"]}')
                    deadline = time.monotonic() + 60
                    while not os.path.exists(flag) and not zy.ended(proc.get('hs', 0), proc.get('tree')):
                        if time.monotonic() > deadline:
                            raise HarnessError('simulated process did not reach its wait operation')
                        time.sleep(0.0005)
                    if os.path.exists(flag):
                        for qi, q in enumerate(scn['procs']):
                            if q.get('nested') and q.get('id') == w.get('run') and q.get('hs', 0) != proc.get('hs', 0):
                                _run_proc(scn, zy, root, qi, q, obs)
                    with open(os.path.join(root, f'resume_{w["k"]}'), 'w') as f_:
                        f_.write('go')
                status, lines = zy.finish(proc.get('hs', 0), tree=proc.get('tree'))
            crashed = None
            for ln in lines:
                if 'child_exception' in ln:
                    raise HarnessError('child exception: ' + ln['child_exception'])
                if ln.get('crash'):
                    crashed = ln
                    continue
                if ln.get('done'):
                    if 'cover' in ln:
                        COVER.update(map(tuple, ln['cover']))
                    continue
                if 'harness_error' in (ln.get('res') or {}):
                    raise HarnessError('op harness error: ' + ln['res']['harness_error'])
                obs.append(ln)
            if crashed is not None:
                if status != 77:
                    raise HarnessError(f'crash record but exit status {status}')
                # which op crashed: first op of this proc without observation
                seen = {o['i'] for o in obs}
                cop = next(op for op in proc['ops'] if op['i'] not in seen)
                tear = (cop.get('crash') or {}).get('tear')
                torn = None
                if tear is not None and crashed.get('last_wopen'):
                    fp = os.path.join(root, 'stores', crashed['last_wopen'])
                    if os.path.isfile(fp) and not os.path.islink(fp):
                        size = os.path.getsize(fp)
                        keepn = _tear_len(tear, size)
                        if keepn is not None and keepn < size:
                            os.truncate(fp, keepn)
                            torn = [crashed['last_wopen'], size, keepn]
                obs.append({'i': cop['i'], 'crash': True, 'at': crashed['at'], 'inv': crashed['inv'], 'fs': crashed['fs'],
                            'fired': crashed.get('fired', []), 'torn': torn, 'last_wopen': crashed.get('last_wopen')})
            elif status != 0:
                raise HarnessError(f'simulated process exited with status {status} without crash record; lines={lines[-2:]}')


def _tear_len(tear, size):
    """tear: {'abs': n} (n<0 counts from end) | {'frac': f}"""
    if 'abs' in tear:
        n = tear['abs']
        n = size + n if n < 0 else n
        return max(0, min(size, n))
    return max(0, min(size, int(size * tear['frac'])))
