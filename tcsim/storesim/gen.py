"""World generator: pipelines (task classes + wiring + namespace slots), configs (values + slot fills), roots.

Everything is drawn from the random.Random passed in; the result is plain JSON.
Soundness restrictions (DESIGN.md A2/A3): globally unique task names, unique two-letter namespace per `uses` slot, no
two namespace-less paths to one pipeline, no quotes/separators in string parameter values (unless zone flag).
"""
import copy
import random
from . import abstract as A
from .. import values as V

NS_NAMES = ['na', 'nb', 'nc', 'nd', 'ne', 'nf', 'ng', 'nh', 'ni', 'nj', 'nk', 'nl', 'nm', 'ana', 'bnb', 'xnc', 'one', 'dnd']
TASK_NAMES = ['alfa', 'bravo', 'cargo', 'delta', 'echo', 'fokus', 'golf', 'hotel', 'india', 'joker', 'kilo', 'lima',
              'mike', 'oskar', 'papa', 'quebec', 'romeo', 'sigma', 'tango', 'ultra', 'viktor', 'whisky', 'xray', 'yankee', 'zulu']
GROUPS = [None, None, 'grp', 'gx:gy', 'MOD', 'DMOD', 'hh']
SAFE_CHARS = 'abcdefghijklmnopqrstuvwxyzABCDXYZ0123456789 _-.' + '\\\t\x7f'    # (backslash, tab, DEL: rendered as they are in release 1.4.0's keys; no quotes - F6)


def camel(name):
    return ''.join(p.capitalize() for p in name.split('_'))


def gen_param_value(r, family, depth=0):
    if family == 'int':
        return r.choice([0, 1, 2, 3, -1, 10, 2**40, -7])
    if family == 'float':
        return r.choice([0.5, 1.5, -2.25, 1e-3, 3.0, 1e20, 0.1, 0.0, 1.0])     # (0.0 == False and 1.0 == True in python: other values of other parameters)
    if family == 'str':
        return ''.join(r.choice(SAFE_CHARS) for _ in range(r.choice([0, 1, 3, 6])))
    if family == 'bool':
        return r.random() < 0.5
    if family == 'none_or_int':
        return r.choice([None, 1, 2])
    if family == 'list':
        return [gen_param_value(r, r.choice(['int', 'str', 'float', 'bool']), depth + 1) for _ in range(r.choice([0, 1, 2, 3]))]
    if family == 'dict':
        return {('k' + str(i)) if r.random() < 0.7 else ''.join(r.choice('abcxyz') for _ in range(2)) + str(i):
                (gen_param_value(r, r.choice(['int', 'str', 'list', 'dict', 'float']), depth + 1) if depth < 2 else i)
                for i in range(r.choice([0, 1, 2, 3]))}
    if family == 'intdict':
        # mappings with integer keys (YAML / in-memory configs): homogeneous keys, natural order != string order
        ks = r.sample([2, 10, -1, 100, 7, 33, 0], r.choice([2, 3, 4]))
        return {'$intkeys': [[k_, gen_param_value(r, r.choice(['int', 'str']))] for k_ in ks]}
    if family == 'long':
        # long values whose representations differ only somewhere in the middle (equal length, equal head and tail)
        m = r.choice([350, -1, -2, -3])
        if r.random() < 0.5:
            return list(range(350)) + [m] + list(range(351, 700))
        return 'a' * 1300 + 'pqrs'[m % 4] + 'b' * 1300
    if family == 'placeholder':
        return r.choice(['{VA}/in', 'pre_{VB}', '{VA}{VB}', 'x{VA}y{VA}', '{VB}/{VA}/z', '{VC}'])
    if family == 'phlist':
        # placeholders inside containers: substituted at any depth, persisted in their placeholder form
        return copy.deepcopy(r.choice([['{VA}/in', 'x'], {'k': 'pre_{VB}', 'n': 1}, ['{VA}{VB}', ['{VC}', 2]], {'p': {'q': '{VB}/{VA}/z'}}, ['{VA}'], {'a': '{VA}', 'b': '{VB}'}]))
    if family == 'obj':
        t = r.random()
        if t < 0.2:
            kw = {'a': r.choice([1, 2, 'p'])}
            # (two or more options make the representation depend on their order in the config: known finding F20, zone profile only)
            for k_ in r.sample(['mode', 'lvl', 'tag'], r.choice([0, 1, 1]) if not _ZONE['optdict'] else r.choice([2, 3])):
                kw[k_] = r.choice([0, 1, 'hi', [1]])
            return {'class': 'tcw.objs.POpt', 'kwargs': kw}
        if t < 0.5:
            kw = {'a': gen_param_value(r, r.choice(['int', 'str', 'list']))}
            if r.random() < 0.5:
                kw['b'] = r.choice(['x', 'y', 'zz', 'pre_{VB}', '{VA}/w'])     # (placeholders inside arguments of object definitions)
            if r.random() < 0.4:
                kw['verbose'] = r.random() < 0.5
            return {'class': 'tcw.objs.PObj' if r.random() < 0.7 else 'tcw.objs.PSub', 'kwargs': kw}
        if t < 0.62:
            # helper objects (ignored for persistence) inside a container argument, directly or one container further down
            def hook():
                return {'class': 'tcw.objs.PHook', 'kwargs': {'every': r.choice([1, 2, 5])}}
            shape = r.choice(['list', 'dict', 'dictlist', 'listlist', 'plain', 'listdict'])
            hooks = {'list': [hook(), r.choice([1, 'w'])], 'dict': {'epoch': hook()}, 'dictlist': {'epoch': [hook(), r.choice([3, 'q'])]},
                     'listlist': [[hook()], r.choice(['z', 4])], 'plain': [r.choice(['plain', 'other']), 2], 'listdict': [{'end': hook()}, 5]}[shape]
            return {'class': 'tcw.objs.PCb', 'kwargs': {'a': r.choice([1, 2, 'p']), 'hooks': hooks}}
        kw = {}
        if r.random() < 0.7:
            kw['c'] = r.choice([1, 2, 3])
        if r.random() < 0.5:
            kw['d'] = r.choice([None, 5, 'q'])
        if r.random() < 0.3:
            kw['debug'] = r.random() < 0.5
        return {'class': 'tcw.objs.PDef', 'kwargs': kw}
    if family == 'objlist':
        items = [gen_param_value(r, 'obj') for _ in range(r.choice([1, 1, 2]))] + [gen_param_value(r, 'int') for _ in range(r.choice([0, 1]))]
        if r.random() < 0.4:
            return {'k0': items[0], 'k1': r.choice([1, 'z'])}
        return items
    if family == 'objset':
        return {'class': 'tcw.objs.PSet', 'kwargs': {'tags': r.sample(['red', 'green', 'blue', 'cyan', 'magenta', 'yellow', 'black'], r.randint(2, 5))}}
    raise ValueError(family)


FAMILIES = ['int', 'int', 'str', 'float', 'bool', 'list', 'dict', 'none_or_int', 'placeholder', 'obj', 'objlist', 'intdict', 'phlist']


def obj_equiv(a, b):
    from .abstract import canon_param
    return canon_param(a) == canon_param(b)


def _norm_obj(v):
    return v


def distinct_pool(r, family, n):
    """n values of one family, pairwise distinct under type-strict comparison AND under python == (A2)."""
    pool = []
    tries = 0
    if family == 'intdict':
        v = gen_param_value(r, 'intdict')
        pool = [v, {str(k_): x_ for k_, x_ in v['$intkeys']}]     # the same mapping with string keys is another value
    while len(pool) < n and tries < 50:
        tries += 1
        v = gen_param_value(r, family)
        if family in ('obj', 'objset', 'objlist'):
            v = _norm_obj(v) if r.random() < 0.5 else v
            if all(not obj_equiv(v, w) for w in pool):
                pool.append(v)
            if isinstance(v, dict) and str(v.get('class', '')).endswith('.POpt') and not _ZONE['optdict'] and len(pool) < n:
                # a sibling that differs only in an option passed through **kwargs
                sib = copy.deepcopy(v)
                opts = [k_ for k_ in sib['kwargs'] if k_ != 'a']
                if opts:
                    sib['kwargs'][opts[0]] = 'other' if sib['kwargs'][opts[0]] != 'other' else 'another'
                else:
                    sib['kwargs']['mode'] = 'other'
                if all(not obj_equiv(sib, w) for w in pool):
                    pool.append(sib)
            continue
        if all(not _loose_eq(v, w) for w in pool):
            pool.append(v)
    return pool


def _loose_eq(a, b):
    try:
        return a == b
    except Exception:
        return False


DEFAULT_KNOBS = {
    'n_pipes': (1, 4),
    'classes_per_pipe': (1, 3),
    'kinds': list(V.JSON_KINDS) + ['ndarray', 'frame', 'series', 'gen', 'dir', 'mem', 'listnp', 'genlazy', 'cont', 'memobj'],
    'max_params': 3,
    'n_roots': (1, 3),
    'p_ns_slot': 0.6,
    'p_override': 0.4,
    'groups': True,
    'optional_inputs': True,
    'patterns': True,
    'styles': ['args', 'args', 'registry', 'index'],
}


_ZONE = {'optdict': False}


def gen_world(r, knobs=None):
    k = dict(DEFAULT_KNOBS)
    k.update(knobs or {})
    _ZONE['optdict'] = bool(k.get('zone_optdict'))
    try:
        return _gen_world(r, k)
    finally:
        _ZONE['optdict'] = False


def _gen_world(r, k):
    names = list(TASK_NAMES)
    r.shuffle(names)
    ns_names = list(NS_NAMES)
    r.shuffle(ns_names)
    classes = []
    pipelines = []
    n_pipes = r.randint(*k['n_pipes'])
    # ns-less closure per pipeline (set of pipeline ids reachable through ns-less slots, incl. itself)
    closure = []
    single_cfg = set()
    reach = []  # per pipeline: list of (rel_ns, pipe) reachable (incl. ('', self))
    for pi in range(n_pipes):
        slots = []
        clos = {pi}
        rch = [('', pi)]
        twin = None
        if pi > 0 and r.random() < k.get('p_twin', 0.2) and len(ns_names) >= 2:
            pj = r.randrange(pi)
            first_ns = None
            for _ in range(2):
                ns = ns_names.pop()
                if first_ns is not None and r.random() < 0.4 and len(first_ns) == 2:
                    ns = first_ns + '2'      # sibling namespaces one of which is a textual prefix of the other
                first_ns = first_ns or ns
                slots.append({'pipe': pj, 'ns': ns})
                rch += [(A.join_ns(ns, rel) or '', q) for rel, q in reach[pj]]
            twin = (len(slots) - 2, len(slots) - 1)
        if pi > 0:
            for _ in range(r.choice([0, 1, 1, 2]) if twin is None else r.choice([0, 1])):
                pj = r.randrange(pi)
                if r.random() < k['p_ns_slot'] and ns_names:
                    ns = ns_names.pop()
                    slots.append({'pipe': pj, 'ns': ns})
                    rch += [(A.join_ns(ns, rel) or '', q) for rel, q in reach[pj]]
                else:
                    if closure[pj] & clos:
                        # diamond: a pipeline reached twice in one namespace; legal when both routes lead to the very same
                        # config, which is guaranteed by giving the shared pipelines exactly one config
                        if r.random() < 0.5:
                            continue
                        single_cfg.update(closure[pj] & clos)
                    # also every namespaced mount below must stay unique: reach rel-ns names are unique per slot, fine
                    slots.append({'pipe': pj, 'ns': None})
                    clos |= closure[pj]
                    rch += list(reach[pj])
        closure.append(clos)
        reach.append(rch)
        cids = []
        for _ in range(r.randint(*k['classes_per_pipe'])):
            if not names:
                break
            name = names.pop()
            if cids and r.random() < 0.12 and ':' not in classes[cids[-1]]['slug'] and '__' not in classes[cids[-1]]['name'] and 'é' not in classes[cids[-1]]['name']:
                # a task whose name extends the name of a sibling task (prefix-related names are distinct tasks)
                ext = classes[cids[-1]]['name'] + '_x'
                if all(c_['name'] != ext for c_ in classes):
                    names.append(name)
                    name = ext
            cid = len(classes)
            if r.random() < 0.2:
                # a task named like the (first level of the) group of a task it can take as input: a group is not a task,
                # nothing may leak between the two
                reach_slugs = [classes[c_]['slug'] for c_ in cids] + [classes[c_]['slug'] for rel_, q_ in rch if q_ != pi and rel_ == '' for c_ in pipelines[q_]['classes']]
                gnames = sorted({s_.split(':')[0] for s_ in reach_slugs if ':' in s_ and s_.split(':')[0] in ('grp', 'hh', 'gx')})
                gnames = [g_ for g_ in gnames if all(c_['name'] != g_ for c_ in classes)]
                if gnames:
                    names.append(name)
                    name = r.choice(gnames)
            grp = r.choice(GROUPS) if k['groups'] and not name.endswith('_x') and name not in ('grp', 'hh', 'gx') else None
            base = 'Task'
            group = grp
            explicit_name = None
            stray_group = None
            if grp == 'MOD':
                base, group = 'ModuleTask', None
                if r.random() < 0.3:
                    stray_group = 'stray'     # release 1.4.0 derives a ModuleTask's group from its module only
            elif grp == 'DMOD':
                base, group = 'DoubleModuleTask', None
            py = camel(name) + r.choice(['', 'Task'])
            if r.random() < 0.2:
                explicit_name = name
                py = 'Cls' + camel(name)
            elif '_' not in name and name not in ('grp', 'hh', 'gx') and random.Random(f'pyname:{name}:{pi}:{len(classes)}:{py}').random() < 0.08:
                # class names in which a capital follows an underscore or a non-ASCII letter: the documented rule puts `_` in front of
                # every capital but the first character ('Alfa_Q' -> 'alfa__q', 'AlfaéB' -> 'alfaé_b')
                if len(name) % 2:
                    py, name = camel(name) + '_Q', name + '__q'
                else:
                    py, name = camel(name) + 'éB', name + 'é_b'
            # documented naming rule: CamelCase -> snake_case, drop _task suffix, or Meta.name; group prefix
            if base == 'ModuleTask':
                gname = f'p{pi}'
            elif base == 'DoubleModuleTask':
                gname = f'tcw:p{pi}'
            else:
                gname = group
            slug = f'{gname}:{name}' if gname else name
            kind = r.choice(k['kinds'])
            params = []
            for j in range(r.randint(0, k['max_params'])):
                fam = r.choice(k.get('families') or FAMILIES)
                if not k.get('families') and r.random() < 0.03:
                    fam = 'long'
                pool = distinct_pool(r, fam, 3)
                if len(pool) < 2:
                    fam = 'int'
                    pool = distinct_pool(r, 'int', 3)
                p = {'name': f'q{cid}x{j}', 'family': fam, 'pool': pool, 'default': A.NO_DEFAULT, 'ignore': False, 'dpd': False, 'nic': None, 'dtype': None}
                t = r.random()
                if t < 0.5:
                    p['default'] = {'v': pool[0]}
                    p['dpd'] = r.random() < 0.5
                if r.random() < 0.15:
                    p['ignore'] = True
                if r.random() < 0.15:
                    p['nic'] = f'cfg_{p["name"]}'
                if fam in ('int', 'str', 'float', 'bool', 'list', 'dict') and r.random() < 0.3:
                    p['dtype'] = fam
                if fam == 'str' and r.random() < k.get('p_path', 0.15):
                    p['dtype'] = 'Path'
                    if p['default'] != A.NO_DEFAULT and r.random() < 0.6 and (p['dpd'] or k.get('zone_pathobj')):
                        # the declaration gives the default as a Path object, configs spell strings. Without
                        # dont_persist_default_value this is known finding F14 (zone profile only)
                        p['pathobj_default'] = True
                if fam == 'phlist':
                    p['placeholder'] = True
                    p['dpd'] = False
                if fam == 'placeholder':
                    p['placeholder'] = True
                    p['dpd'] = False
                    if r.random() < 0.3:
                        p['dtype'] = 'str'              # the substituted string is a str subclass and has to pass the dtype check
                if fam in ('obj', 'objset', 'objlist'):
                    # default values are python objects in real code; keep object parameters required or default None
                    p['dpd'] = False
                    if p['default'] != A.NO_DEFAULT:
                        p['default'] = {'v': None}
                        p['nospell'] = True
                if fam == 'int' and p['dpd'] and p['dtype'] is None and p['default'] != A.NO_DEFAULT and random.Random(f'dpdstr:{p["name"]}:{pool}').random() < 0.6:
                    # a configured value that differs from the default only by its type ('2' next to the default 2) is another computation
                    p['pool'] = pool + [str(pool[0])]
                params.append(p)
            # inputs: earlier classes of this pipeline (rel '') or classes of reachable pipelines
            cands = [('', c2) for c2 in cids]
            for rel, q in rch:
                if q == pi:
                    continue
                cands += [(rel, c2) for c2 in pipelines[q]['classes']]
            inputs = []
            r.shuffle(cands)
            namesake = [c_ for c_ in cands if classes[c_[1]]['slug'].startswith(name + ':')]
            if namesake:
                # a task named like the group of one of its inputs, which it computes during its own run
                cands = namesake[:1] + [c_ for c_ in cands if c_ not in namesake[:1]]
            used_cls = set()
            style = r.choice(k['styles'])
            if twin is not None and r.random() < 0.6:
                # the same upstream task from two namespaces: distinguishable by position only
                style = 'index'
                tc = r.choice(pipelines[slots[twin[0]]['pipe']]['classes'])
                cands = [(slots[twin[0]]['ns'], tc), (slots[twin[1]]['ns'], tc)] + [c_ for c_ in cands if c_[1] != tc]
            used_rel = set()
            for rel, c2 in cands[: r.choice([0, 1, 1, 2, 3] if not namesake else [1, 2]) if not (twin is not None and style == 'index') else r.choice([2, 3])]:
                if c2 in used_cls and (style != 'index' or (rel, c2) in used_rel):
                    continue    # the same task twice (under different namespaces) can only be told apart by index
                used_cls.add(c2)
                used_rel.add((rel, c2))
                tgt = classes[c2]
                forms = ['class', 'slug']
                if rel == '':
                    pass
                else:
                    forms = ['slug']  # a class reference cannot carry a relative namespace
                if ':' in tgt['slug']:
                    forms.append('short')
                inp = {'cls': c2, 'rel': rel, 'form': r.choice(forms), 'optional': False}
                if k['optional_inputs'] and r.random() < 0.15:
                    inp['optional'] = True
                inputs.append(inp)
            if k['patterns'] and style != 'index' and r.random() < 0.3:
                # `~pattern` input: one declaration expanding to several tasks of the own namespace (group-less ones: A3)
                pats = [i_ for i_ in inputs if i_['rel'] == '' and not i_['optional'] and ':' not in classes[i_['cls']]['slug']]
                if pats:
                    pats = pats[: r.choice([1, 2, 3])]
                    pat = '(' + '|'.join(classes[i_['cls']]['slug'] for i_ in pats) + ')' if len(pats) > 1 or r.random() < 0.5 else classes[pats[0]['cls']]['slug']
                    for i_ in pats:
                        i_['form'] = 'pattern'
                        i_['pattern'] = pat
            if k['optional_inputs'] and r.random() < 0.1:
                inputs.append({'cls': None, 'rel': '', 'form': 'slug', 'optional': 'absent', 'name': 'missing_' + name})
            # required (non-optional) inputs come first in Meta.input_tasks; optional ones are InputTaskParameters
            inputs.sort(key=lambda i: bool(i['optional']))
            n_in = len(inputs)
            reads = [i for i in range(n_in) if r.random() < 0.75 or (namesake and i == 0)]
            r.shuffle(reads)
            classes.append({
                'py': py, 'name': name, 'meta_name': explicit_name, 'base': base, 'group': group, 'stray_group': stray_group, 'slug': slug, 'pipe': pi,
                'params': params, 'inputs': inputs, 'kind': kind, 'reads': reads, 'style': style,
                'nlog': r.choice([0, 1, 2]), 'cont_steps': r.choice([1, 1, 2, 3]) if kind == 'cont' else 0,
            })
            same_base = [c2 for c2 in cids if classes[c2]['base'] == base]
            if same_base and r.random() < 0.12:
                # python inheritance from another (concrete) task class of the pipeline; Meta and run are its own
                classes[-1]['pybase'] = r.choice(same_base)
            cids.append(cid)
        pipelines.append({'classes': cids, 'slots': slots, 'twin': twin})
    # configs: 1-3 per pipeline, bottom-up so fills exist
    configs = []
    twin_pairs = []
    cfg_of_pipe = {pi: [] for pi in range(n_pipes)}
    for pi in range(n_pipes):
        for v in range(r.choice([1, 1, 2, 3]) if pi not in single_cfg else 1):
            vals = {}
            for cid in pipelines[pi]['classes']:
                for p in classes[cid]['params']:
                    key = p['nic'] or p['name']
                    if p['default'] == A.NO_DEFAULT or r.random() < 0.6:
                        vals[key] = r.choice(p['pool'])
            fills = [r.choice(cfg_of_pipe[s['pipe']]) for s in pipelines[pi]['slots']]
            ci = len(configs)
            configs.append({'name': f'cfg{ci}', 'pipe': pi, 'values': vals, 'fills': fills})
            cfg_of_pipe[pi].append(ci)
            tw = pipelines[pi].get('twin')
            if tw and fills[tw[0]] != fills[tw[1]] and r.random() < 0.8 and pi not in single_cfg:
                # the same pipeline with the two mounted configs swapped: a different computation downstream
                f2 = list(fills)
                f2[tw[0]], f2[tw[1]] = f2[tw[1]], f2[tw[0]]
                ci2 = len(configs)
                configs.append({'name': f'cfg{ci2}', 'pipe': pi, 'values': dict(vals), 'fills': f2})
                cfg_of_pipe[pi].append(ci2)
                twin_pairs.append((ci, ci2))
    # roots: prefer configs of late pipelines (bigger chains)
    roots = []
    n_roots = r.randint(*k['n_roots'])
    forced_roots = []
    if twin_pairs and n_roots >= 2 and r.random() < 0.7:
        # the two config trees that differ only in which config sits under which namespace, both on one data directory
        forced_roots = list(r.choice(twin_pairs))
    for ri_ in range(n_roots):
        ci = r.choice(cfg_of_pipe[n_pipes - 1] if r.random() < 0.6 else range(len(configs)))
        if ri_ < len(forced_roots):
            ci = forced_roots[ri_]
        root = {'cfg': ci, 'overrides': None}
        if r.random() < k['p_override']:
            root['overrides'] = gen_overrides(r, {'classes': classes, 'pipelines': pipelines, 'configs': configs}, root, k.get('no_for_ns', False))
        roots.append(root)
    world = {'classes': classes, 'pipelines': pipelines, 'configs': configs, 'roots': roots}
    # JSON files cannot carry integer mapping keys: such worlds are rendered in memory or as YAML only
    world['no_json'] = any(p['family'] == 'intdict' for c in classes for p in c['params'])
    return world


def gen_overrides(r, world, root, no_for_ns=False):
    """semantic context overrides: global entries and entries for exact namespaces."""
    ms = A.mounts(world, root)
    glob = {}
    for_ns = {}
    for ns, ci in ms:
        cfg = world['configs'][ci]
        for cid in world['pipelines'][cfg['pipe']]['classes']:
            for p in world['classes'][cid]['params']:
                if r.random() < 0.25:
                    key = p['nic'] or p['name']
                    if ns and r.random() < 0.6 and not no_for_ns:
                        for_ns.setdefault(ns, {})[key] = r.choice(p['pool'])
                    else:
                        glob[key] = r.choice(p['pool'])
    return {'global': glob, 'for_ns': for_ns}
