"""C05: exhaustive enumeration of crash points for single requests.

For every data kind x {first computation, forced recomputation over an existing result} x {leaf task, task whose upstream
must be computed too}: a counting run learns the mutating file-system operations of the request; then EVERY crash index
(crash immediately before operation k) is executed, with a set of torn prefixes of the file opened by operation k-1 when
there is one, plus every run-fault kind on every task involved and a disk error at every operation."""
import copy

from . import abstract as A
from .. import values as V

KINDS = list(V.JSON_KINDS) + ['ndarray', 'frame', 'series', 'gen', 'dir', 'listnp', 'genlazy', 'cont']
QUICK_KINDS = ['dict', 'str', 'ndarray', 'frame', 'series', 'gen', 'dir', 'listnp', 'genlazy', 'cont']
TEARS = [{'abs': 0}, {'abs': 1}, {'frac': 0.5}, {'abs': -1}, {'frac': 0.13}, {'frac': 0.77}, {'frac': 0.97}]
RUN_FAULTS = ['raise_start', 'raise_after_inputs', 'raise_before_return', 'mistyped', 'unserializable', 'gen_raise']


def combos():
    out = []
    for kind in KINDS:
        for forced in (False, True):
            for shape in ('leaf', 'chain'):
                out.append({'kind': kind, 'forced': forced, 'shape': shape})
    # explicit deletion of a stored result (Task.force(delete_data=True)): interrupted or failing at every operation
    for kind in KINDS:
        out.append({'kind': kind, 'forced': False, 'shape': 'leaf', 'mode': 'delete'})
    return out


def world_for(combo):
    kind = combo['kind']
    up = {'py': 'Upper', 'name': 'upper', 'meta_name': None, 'base': 'Task', 'group': None, 'slug': 'upper', 'pipe': 0,
          'params': [{'name': 'pu', 'family': 'int', 'pool': [1, 2], 'default': A.NO_DEFAULT, 'ignore': False, 'dpd': False, 'nic': None}],
          'inputs': [], 'kind': 'dict', 'reads': [], 'style': 'args', 'nlog': 1, 'cont_steps': 0}
    t = {'py': 'Target', 'name': 'target', 'meta_name': None, 'base': 'Task', 'group': 'grp', 'slug': 'grp:target', 'pipe': 0,
         'params': [{'name': 'pt', 'family': 'str', 'pool': ['a', 'b'], 'default': {'v': 'a'}, 'ignore': False, 'dpd': False, 'nic': None}],
         'inputs': [{'cls': 0, 'rel': '', 'form': 'class', 'optional': False}] if combo['shape'] == 'chain' else [],
         'kind': kind, 'reads': [0] if combo['shape'] == 'chain' else [], 'style': 'args', 'nlog': 1,
         'cont_steps': 2 if kind == 'cont' else 0}
    classes = [up, t]
    return {'classes': classes, 'pipelines': [{'classes': [0, 1], 'slots': [], 'twin': None}],
            'configs': [{'name': 'cfg0', 'pipe': 0, 'values': {'pu': 1, 'pt': 'b'}, 'fills': []}],
            'roots': [{'cfg': 0, 'overrides': None}], 'no_json': False}


def _base(combo, fault, hs2=1, post=None):
    """scenario skeleton; `fault` is merged into the judged request"""
    w = world_for(combo)
    ops = []
    n = [0]

    def op(**d):
        d['i'] = n[0]
        n[0] += 1
        return d
    p0 = [op(op='build', cid='c0', root=0, render={'form': 'mem'}, pmode=True, store='main')]
    if combo['forced']:
        p0.append(op(op='req', cid='c0', task='grp:target', name='grp:target'))
        p0.append(op(op='tforce', cid='c0', task='grp:target', name='grp:target', delete=False))
    pre = []
    if fault.get('armrun'):
        pre.append(op(op='armrun', slug=fault['armrun']['slug'], kind=fault['armrun']['kind'], at=fault['armrun'].get('at', 0)))
    req = op(op='req', cid='c0', task='grp:target', name='grp:target')
    for k in ('crash', 'diskerr'):
        if k in fault:
            req[k] = fault[k]
    p0 += pre + [req]
    if fault.get('armrun') and fault.get('twice'):
        # the same task fails a second time before it succeeds (what the first failure set aside is in the way now)
        p0.append(op(op='armrun', slug=fault['armrun']['slug'], kind=fault['twice'], at=fault['armrun'].get('at', 0)))
        p0.append(op(op='req', cid='c0', task='grp:target', name='grp:target'))
    if 'crash' not in fault:
        p0.append(op(op='insp', cid='c0', kind='has_data'))
        if 'armrun' in fault:
            p0.append(op(op='ls', store='main', expect='error_dirs'))
        p0.append(op(op='req', cid='c0', task='grp:target', name='grp:target'))
        p0.append(op(op='disarm'))
    p1 = [op(op='build', cid='c1', root=0, render={'form': 'mem'}, pmode=True, store='main')]
    if post == 'delete':
        # the result is explicitly deleted after the fault; nothing of an earlier/interrupted attempt may come back
        p1 += [op(op='tforce', cid='c1', task='grp:target', name='grp:target', delete=True),
               op(op='build', cid='c1', root=0, render={'form': 'mem'}, pmode=True, store='main')]
    elif post == 'reforce':
        # a later forced recomputation has to work whatever the interrupted one left behind
        p1 += [op(op='tforce', cid='c1', task='grp:target', name='grp:target', delete=False)]
    p1 += [op(op='insp', cid='c1', kind='has_data'),
          op(op='req', cid='c1', task='grp:target', name='grp:target'),
          op(op='req', cid='c1', task='upper', name='upper'),
          op(op='insp', cid='c1', kind='has_data')]
    return {'engine': 'storesim', 'world': w, 'procs': [{'hs': 0, 'ops': p0}, {'hs': hs2, 'ops': p1}], 'combo': combo,
            'fault': fault, 'judged_op': req['i']}


def _base_delete(combo, fault, hs2=1):
    """the result is computed, then deleted through Task.force(delete_data=True); `fault` hits the deletion"""
    w = world_for(combo)
    n = [0]

    def op(**d):
        d['i'] = n[0]
        n[0] += 1
        return d
    p0 = [op(op='build', cid='c0', root=0, render={'form': 'mem'}, pmode=True, store='main'),
          op(op='req', cid='c0', task='grp:target', name='grp:target')]
    dele = op(op='tforce', cid='c0', task='grp:target', name='grp:target', delete=True)
    for k in ('crash', 'diskerr'):
        if k in fault:
            dele[k] = fault[k]
    p0.append(dele)
    if 'crash' not in fault:
        p0 += [op(op='insp', cid='c0', kind='has_data'),
               op(op='req', cid='c0', task='grp:target', name='grp:target')]
    p1 = [op(op='build', cid='c1', root=0, render={'form': 'mem'}, pmode=True, store='main'),
          op(op='insp', cid='c1', kind='has_data'),
          op(op='req', cid='c1', task='grp:target', name='grp:target'),
          op(op='insp', cid='c1', kind='has_data')]
    return {'engine': 'storesim', 'world': w, 'procs': [{'hs': 0, 'ops': p0}, {'hs': hs2, 'ops': p1}], 'combo': combo,
            'fault': fault, 'judged_op': dele['i']}


def count_scenario(combo):
    if combo.get('mode') == 'delete':
        return _base_delete(combo, {'crash': {'k': 10**6, 'tear': None}})
    return _base(combo, {'crash': {'k': 10**6, 'tear': None}})


def expand(combo, count_obs):
    """count_obs: observations of count_scenario(combo) -> list of scenarios covering every crash point etc."""
    scn0 = count_scenario(combo)
    j = scn0['judged_op']
    o = next(x for x in count_obs if x['i'] == j)
    muts = [f for f in o['fs'] if f[0] not in ('ropen',)]
    n = len(muts)
    out = []
    if combo.get('mode') == 'delete':
        for k in range(n + 1):
            out.append(_base_delete(combo, {'crash': {'k': k, 'tear': None}}))
            if k < n:
                out.append(_base_delete(combo, {'crash': {'k': k, 'tear': None, 'when': 'after'}}))
                out.append(_base_delete(combo, {'crash': {'k': k, 'tear': None, 'when': 'interrupt'}}))
                for e in ('EIO', 'EACCES'):
                    out.append(_base_delete(combo, {'diskerr': {'k': k, 'errno': e}}))
        return out, n
    for k in range(n + 1):
        out.append(_base(combo, {'crash': {'k': k, 'tear': None}}))
        if k < n:
            out.append(_base(combo, {'crash': {'k': k, 'tear': None, 'when': 'after'}}))
            out.append(_base(combo, {'crash': {'k': k, 'tear': None, 'when': 'interrupt'}}))
            if muts[k][0] == 'wopen':
                for lim in (0, 1, 9, 60):
                    out.append(_base(combo, {'crash': {'k': k, 'tear': None, 'when': 'interrupt', 'wlimit': lim}}))
        if combo['forced']:
            out.append(_base(combo, {'crash': {'k': k, 'tear': None}}, post='delete'))
            out.append(_base(combo, {'crash': {'k': k, 'tear': None}}, post='reforce'))
        if k > 0 and muts[k - 1][0] == 'wopen':
            for t in TEARS:
                out.append(_base(combo, {'crash': {'k': k, 'tear': dict(t)}}, hs2=2))
    for k in range(n):
        for e in ('ENOSPC', 'EIO'):
            out.append(_base(combo, {'diskerr': {'k': k, 'errno': e}}))
        if muts[k][0] == 'wopen':
            for lim in (0, 1, 9, 60, 400):
                out.append(_base(combo, {'diskerr': {'k': k, 'errno': 'ENOSPC', 'wlimit': lim}}))
            for lim in (0, 9, 400):
                out.append(_base(combo, {'diskerr': {'k': k, 'errno': 'ENOSPC', 'wlimit': lim, 'at_close': True}}))
    slugs = ['grp:target'] + (['upper'] if combo['shape'] == 'chain' else [])
    for slug in slugs:
        for kind in RUN_FAULTS:
            for at in ((0, 1, 3) if kind == 'gen_raise' else (0,)):
                out.append(_base(combo, {'armrun': {'slug': slug, 'kind': kind, 'at': at}}))
            if kind in ('raise_before_return', 'unserializable', 'mistyped'):
                for second in ('raise_before_return', 'unserializable'):
                    out.append(_base(combo, {'armrun': {'slug': slug, 'kind': kind, 'at': 0}, 'twice': second}))
    return out, n
