"""Zygote: one warm interpreter per PYTHONHASHSEED; forks one child per simulated process.

Protocol (stdin/stdout, binary): request = one JSON line; reply = header JSON line {"status":..,"n":..} + n raw bytes
(the child's newline-delimited observation stream).
"""
import json
import os
import sys


def main():
    repo_src = sys.argv[1]
    verif = sys.argv[2]
    sys.path.insert(0, verif)
    sys.path.insert(0, repo_src)
    os.environ.setdefault('OPENBLAS_NUM_THREADS', '1')
    os.environ.setdefault('OMP_NUM_THREADS', '1')
    import warnings
    warnings.filterwarnings('ignore')
    import faulthandler
    faulthandler.enable()
    import taskchain  # noqa
    import taskchain.utils.iter as tci
    import taskchain.utils.threading as tct
    import taskchain.utils.migration  # noqa
    assert os.path.realpath(taskchain.__file__).startswith(os.path.realpath(repo_src)), (taskchain.__file__, repo_src)

    def _notqdm(it=None, *a, **k):
        return it
    tci.tqdm = _notqdm
    tci.tqdm_notebook = _notqdm
    import numpy, pandas, yaml  # noqa
    from tcsim.storesim import child
    inp = sys.stdin.buffer
    out = sys.stdout.buffer
    out.write(b'{"ready": true}\n')
    out.flush()
    devnull = os.open(os.devnull, os.O_RDWR)
    debug = os.environ.get('TCSIM_DEBUG')
    while True:
        line = inp.readline()
        if not line:
            break
        job = json.loads(line)
        r, w = os.pipe()
        pid = os.fork()
        if pid == 0:
            try:
                os.close(r)
                os.dup2(devnull, 0)
                os.dup2(devnull, 1)
                if not debug:
                    os.dup2(devnull, 2)
                faulthandler.dump_traceback_later(job.get('timeout', 60), exit=True)
                child.run_process(job, w)
                os._exit(0)
            except BaseException:
                import traceback
                try:
                    os.write(w, (json.dumps({'child_exception': traceback.format_exc()[-3000:]}) + '\n').encode())
                finally:
                    os._exit(70)
        os.close(w)
        chunks = []
        while True:
            b = os.read(r, 1 << 16)
            if not b:
                break
            chunks.append(b)
        os.close(r)
        _, status = os.waitpid(pid, 0)
        data = b''.join(chunks)
        code = os.waitstatus_to_exitcode(status)
        out.write(json.dumps({'status': code, 'n': len(data)}).encode() + b'\n')
        out.write(data)
        out.flush()


if __name__ == '__main__':
    main()
