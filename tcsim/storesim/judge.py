"""Reference model + oracle for storesim.

judge(scn, obs) replays the scenario's operations against the reference model (documented semantics, abstract.py) while
reading the recorded observations, and returns a list of discrepancies.  Each discrepancy carries the id of the property
whose invariant it violates (DESIGN.md 3.4).  The judge never looks at taskchain: it sees only the scenario and what the
simulated processes reported.
"""
import json
from . import abstract as A
from .. import values as V

PERSIST_NONE = ('mem', 'memobj')


class Disc(dict):
    """discrepancy record"""


def _short(x, n=160):
    s = json.dumps(x, sort_keys=True, default=str)
    return s if len(s) <= n else s[:n] + '...'


class Loc:
    __slots__ = ('state', 'stage', 'stage_exact', 'tainted', 'writer', 'key', 'err_dir', 'err_partial', 'kind', 'slug', 'last_run', 'steps', 'fail_partial', 'tree', 'migrated', 'faulted', 'vh')

    def __init__(self, kind, slug, steps=0):
        self.state = 'absent'      # absent | complete | indoubt
        self.stage = 0             # ContinuesData: steps present in the kept work directory
        self.stage_exact = True
        self.tainted = False       # touched by crash / disk error / serialization fault since it was last known complete
        self.writer = None
        self.key = None
        self.err_dir = False
        self.err_partial = False
        self.kind = kind
        self.slug = slug
        self.last_run = None       # dict: run record of the last successful run (for C18)
        self.steps = steps
        self.fail_partial = False
        self.tree = None
        self.migrated = False
        self.vh = None           # (h, revision) of the stored value when it is not the revision-0 value of the asking instance
        self.faulted = False     # sticky: some run/save of this location failed or was interrupted at some point of the history


class Obj:
    __slots__ = ('mem', 'forced', 'unknown', 'ref_invalid', 'locid', 'vh')

    def __init__(self):
        self.mem = False
        self.forced = False
        self.unknown = False       # in-memory state unknown (after a disk error inside the process)
        self.ref_invalid = False   # holds a reference value (directory path / lazy reader) whose storage was deleted through another object
        self.locid = None
        self.vh = None             # (h, revision) of the value held in memory; None = the instance's static expected value


class Judge:
    def __init__(self, scn):
        self.scn = scn
        self.world = scn['world']
        self.discs = []
        self.store = {}            # (store_dir, loc id) -> Loc
        self.key_of_D = {}         # D -> first observed key
        self.D_of_key = {}         # (slug, key) -> D
        self.models = {}           # (root, outer) -> insts
        self.stats = {'loads': 0, 'runs': 0, 'mem_hits': 0, 'crashes': 0, 'torn': 0, 'diskerr': 0, 'runfaults': 0,
                      'indoubt_resolved_present': 0, 'indoubt_resolved_absent': 0, 'shared_cross_root': 0,
                      'loaded_without_upstream': 0, 'skipped_unread_missing_input': 0, 'forced_runs': 0,
                      'crash_in_save': 0, 'crash_in_nested_run': 0, 'crash_in_error_handler': 0, 'crash_in_replace_dir': 0,
                      'mem_shared_multichain': 0, 'cont_resumed': 0, 'error_dir_checked': 0, 'records_checked': 0}
        self.abstract_states = []
        self.rev = {}              # slug -> revision of the external resource the run body reads
        self.rev_used = False
        self._exp_cache = {}
        self.proc = None
        self.cur_multi = False
        self.cur_migrated = False
        self.muted = False
        self.key_tree = {}
        self.listings = {}
        self.mig_interrupted = set()   # target stores an interrupted migration wrote into
        self.broken_stores = set()     # ... and whose re-run refused to continue: nothing is claimed about them
        # some name-mode chain of this history uses config names containing a dot (zone of known finding F11)
        self.dotted_namemode = any(o_['op'] in ('build', 'migrate') and not o_.get('pmode', o_['op'] != 'migrate') and '.' in (o_.get('render') or {}).get('name_suffix', '')
                                   for p_ in scn['procs'] for o_ in p_['ops'])
        self.migration_targets = {p_op['target'] for p in scn['procs'] for p_op in p['ops'] if p_op['op'] == 'migrate'}

    # ------------------------------------------------------------------ helpers
    def disc(self, prop, inv, i, msg, **detail):
        if self.muted:
            return      # operations executed by the frozen earlier release: only their effect on the store matters
        zone = detail.pop('zone', None)
        self.discs.append(Disc(prop=prop, inv=inv, op=i, msg=msg, detail=detail, zone=zone))
        if self.cur_migrated and prop in ('C01', 'C04', 'C06'):
            self.discs.append(Disc(prop='C20', inv=inv, op=i, msg='after migration: ' + msg, detail=detail, zone=None))
        if self.cur_multi and prop in ('C01', 'C02', 'C04'):
            # a member chain of a MultiChain must behave as the standalone chain of its config (C13)
            self.discs.append(Disc(prop='C13', inv=inv, op=i, msg='member chain differs from standalone chain: ' + msg, detail=detail))

    def expected(self, it, vh):
        """canonical value a request of `it` has to return when the value behind it is `vh` (None: revision 0 throughout)"""
        if vh is None:
            return it.expected
        k = (it.kind, vh)
        if k not in self._exp_cache:
            self._exp_cache[k] = V.canon_expected(it.kind, V.make_value_rev(it.kind, vh[0], vh[1]))
        return self._exp_cache[k]

    def model(self, root, outer):
        k = (root, outer)
        if k not in self.models:
            self.models[k] = A.build_chain_model(self.world, root, outer)
        return self.models[k]

    def loc(self, chain, inst):
        if chain['pmode']:
            lid = inst.D
        else:
            lid = f'name:{inst.slug}:{chain["cfgname"][inst.cfg]}'
        k = (chain['store'], lid)
        if k not in self.store:
            self.store[k] = Loc(inst.kind, inst.slug, inst.cspec.get('cont_steps', 0))
        return self.store[k]

    # ------------------------------------------------------------------ main loop
    def run(self, obs):
        by_i = {}
        for o in obs:
            by_i[o['i']] = o
        procs = self.scn['procs']
        # operations in the order they were executed: a process parked at a `wait` operation stays alive while the nested process runs
        order = []

        def emit(pi):
            for op in procs[pi]['ops']:
                order.append((pi, op))
                if op['op'] == 'wait' and by_i.get(op['i']) is not None:
                    for qi, q in enumerate(procs):
                        if q.get('nested') and q.get('id') == op.get('run'):
                            emit(qi)
        for pi, proc in enumerate(procs):
            if not proc.get('nested'):
                emit(pi)
        states = {}
        for pi, op in order:
            proc = procs[pi]
            self.muted = bool(proc.get('tree'))
            if pi not in states:
                states[pi] = {'chains': {}, 'objs': {}, 'faults': {}, 'multis': {}, 'dead': False, 'tree': proc.get('tree'),
                              'index': pi, 'logger_dirty': set()}
            self.proc = states[pi]
            o = by_i.get(op['i'])
            if o is None:
                # process died earlier (crash): remaining ops of this process were never executed
                continue
            if 'skip' in (o.get('res') or {}):
                continue
            ch = self.proc['chains'].get(op.get('cid'))
            self.cur_multi = op['op'] in ('mbuild', 'mforce') or bool(ch and ch['registry'][0] == 'multi')
            self.cur_migrated = bool(ch and ch['store'] in self.migration_targets)
            getattr(self, 'j_' + op['op'])(op, o)
            if o.get('crash'):
                self.proc['dead'] = True
            self.abstract_states.append(self.state_digest())
        return self.discs

    def j_wait(self, op, o):
        self.stats['overlapping_processes'] = self.stats.get('overlapping_processes', 0) + 1

    def state_digest(self):
        st = sorted((k[0], k[1][:12], l.state, l.stage) for k, l in self.store.items() if l.state != 'absent')
        ob = sorted((t, o.mem, o.forced) for t, o in self.proc['objs'].items() if o.mem or o.forced)
        return V.digest([st, ob])[:16]

    # ------------------------------------------------------------------ build
    def _register_chain(self, op, o, cid, root, render, tasks, pmode, registry):
        outer = render.get('outer_ns')
        insts = self.model(root, outer)
        chain = {'root': root, 'outer': outer, 'insts': insts, 'tok': {}, 'pmode': pmode, 'store': op.get('store', 'main'),
                 'registry': registry, 'cfgname': {ci: _cfgname(c['name'], render) for ci, c in enumerate(self.world['configs'])}}
        if set(tasks) != set(insts):
            got_slugs = sorted(d.get('slug') for d in tasks.values())
            exp_slugs = sorted(it.slug for it in insts.values())
            if got_slugs != exp_slugs and len(tasks) == len(insts):
                # same number of tasks under other group/name: the documented derivation of `<group levels>:<task name>`
                # (class name, Meta.name, Meta.task_group, module-derived groups) - i.e. the storage layout - changed
                self.disc('C12', 'I-layout', op['i'], 'task group/name differs from the documented derivation (directory of its results moves)',
                          got=[s_ for s_ in got_slugs if s_ not in exp_slugs][:5], expected=[s_ for s_ in exp_slugs if s_ not in got_slugs][:5])
            self.disc('C01', 'I-tasks', op['i'], 'chain task set differs from the configuration\'s',
                      got=sorted(tasks), expected=sorted(insts))
            return None
        for name, d in tasks.items():
            it = insts[name]
            chain['tok'][name] = d['obj']
            chain.setdefault('keys', {})[name] = d.get('key')
            chain.setdefault('in_toks', {})[name] = [t for t in (d.get('inputs') or {}).values() if t is not None]
            ob = self.proc['objs'].setdefault(d['obj'], Obj())
            ob.locid = (chain['store'], it.D if pmode else f'name:{it.slug}:{chain["cfgname"][it.cfg]}')
            if d.get('forced') != ob.forced:
                self.disc('C07', 'I-forced', op['i'], f'is_forced of {name} right after construction', got=d.get('forced'), expected=ob.forced)
            if 'key' not in d:
                self.disc('C01', 'I-key', op['i'], f'no storage key for {name}', err=d.get('key_err'))
                continue
            if pmode:
                first = self.key_of_D.get(it.D)
                if first is None:
                    self.key_of_D[it.D] = d['key']
                    self.key_tree[it.D] = self.proc.get('tree')
                elif first != d['key'] and self.key_tree.get(it.D) and not self.proc.get('tree'):
                    self.disc('C12', 'I-scheme', op['i'], f'{name}: storage key differs from the one release 1.4.0 derives for this computation',
                              v140=first, now=d['key'])
                elif first != d['key']:
                    self.disc('C02', 'I-location', op['i'], f'{name}: same computation, different storage key', first=first, now=d['key'],
                              zone='set_valued_parameter_object' if _has_pset(it) else ('path_object_default_persisted' if _has_pathobj(it) else
                                    ('mapping_valued_parameter_object_argument' if _has_optdict(it) else None)),
                              render=render, hs=self.scn['procs'][self.proc['index']].get('hs'))
                other = self.D_of_key.setdefault((it.slug, d['key']), it.D)
                if other != it.D:
                    # two different computations on one location: C03 is not claimed; its consequence (a foreign value) is C01's
                    chain.setdefault('collisions', []).append(name)
                loc = self.loc(chain, it)
                loc.key = d['key']
        self.proc['chains'][cid] = chain
        return chain

    def j_build(self, op, o):
        res = o['res']
        if o['inv']:
            self.disc('C04', 'I-runs', op['i'], 'run executed during chain construction', ran=o['inv'])
        if 'err' in res:
            self.disc('C01', 'I-build', op['i'], 'chain construction failed', err=res['err'])
            return
        if op.get('store', 'main') in self.broken_stores:
            return
        reg = ('multi', 'reg:' + op['registry']) if op.get('registry') else ('chain', op['cid'])
        self._register_chain(op, o, op['cid'], op['root'], op['render'], res['tasks'], op.get('pmode', True), reg)

    def j_mbuild(self, op, o):
        res = o['res']
        if o['inv']:
            self.disc('C04', 'I-runs', op['i'], 'run executed during MultiChain construction', ran=o['inv'])
        if 'err' in res:
            self.disc('C13', 'I-multi', op['i'], 'MultiChain construction failed', err=res['err'])
            return
        members = []
        for k, m in enumerate(op['members']):
            ch = self._register_chain(op, o, f'{op["mid"]}/{k}', m['root'], m['render'], res['chains'][str(k)], op.get('pmode', True), ('multi', op['mid']))
            members.append(ch)
        self.proc['multis'][op['mid']] = [f'{op["mid"]}/{k}' for k in range(len(op['members']))]
        # identity: one object iff same (slug, D)
        seen = {}
        for ch in members:
            if ch is None:
                continue
            for name, tok in ch['tok'].items():
                it = ch['insts'][name]
                seen.setdefault((it.slug, it.D), set()).add(tok)
        toks = {}
        for k, s in seen.items():
            if len(s) > 1:
                self.disc('C13', 'I-multi', op['i'], 'same computation is not one shared object across member chains', computation=k[0], objects=sorted(s))
            for t in s:
                if t in toks and toks[t] != k:
                    self.disc('C13', 'I-multi', op['i'], 'different computations share one task object', a=toks[t][0], b=k[0])
                toks[t] = k

    def j_drop(self, op, o):
        self.proc['chains'].pop(op['cid'], None)

    # ------------------------------------------------------------------ request
    def j_req(self, op, o):
        chain = self.proc['chains'].get(op['cid'])
        if chain is None:
            return
        res = o.get('res') or {}
        name = op['name'] if 'name' in op else op['task']
        if name not in chain['insts']:
            return
        if 'lookup_err' in res:
            self.disc('C01', 'I-lookup', op['i'], f'task {op["task"]} not addressable', err=res['lookup_err'])
            return
        crash = bool(o.get('crash'))
        diskerr = any(f[0] == 'diskerr' for f in o.get('fired', []))
        ev = Eval(self, chain, op, o)
        outcome = ev.request(name)
        ev.finish(outcome, name, res, crash, diskerr)
        if op.get('mutate') and res.get('mutated'):
            # the caller scribbled over the value object: every chain of this process that shares that task object is
            # dead to the oracle from here on (its in-memory values are the caller's business)
            tok = chain['tok'][name]
            for cid in [c for c, ch in self.proc['chains'].items() if tok in ch['tok'].values()]:
                self.proc['chains'].pop(cid)

    # ------------------------------------------------------------------ inspect
    def j_insp(self, op, o):
        chain = self.proc['chains'].get(op['cid'])
        if chain is None:
            return
        res = o.get('res') or {}
        kind = op['kind']
        if o['inv']:
            self.disc('C04', 'I-runs', op['i'], f'run executed during inspection ({kind})', ran=o['inv'])
        muts = [f for f in o['fs'] if f[0] in ('wopen', 'rename', 'remove', 'truncate') and not _is_work_path(f[1])]
        if kind != 'links' and muts:
            self.disc('C04', 'I-inspect-pure', op['i'], f'inspection ({kind}) wrote or removed store files', fs=muts[:6])
        if 'err' in res:
            # inspection of an in-doubt location may legitimately fail only for records (run info / log), never for has_data/data_path
            if kind in ('has_data', 'data_path', 'flags', 'tasks_df', 'repr'):
                self.disc('C04', 'I-inspect', op['i'], f'inspection ({kind}) raised', err=res['err'])
            return
        out = res.get('ok') or {}
        if kind == 'has_data':
            for name, got in out.items():
                it = chain['insts'].get(name)
                if it is None:
                    continue
                self._check_has_data(op, chain, it, name, got)
        elif kind == 'tasks_df':
            for name, got in (out.get('computed') or {}).items():
                it = chain['insts'].get(name)
                if it is None or got is None:
                    continue
                self._check_has_data(op, chain, it, name, got)
        elif kind == 'flags':
            for name, got in out.items():
                tok = chain['tok'].get(name)
                if tok is None:
                    continue
                exp = self.proc['objs'][tok].forced
                if got != exp:
                    self.disc('C07', 'I-forced', op['i'], f'is_forced of {name}', got=got, expected=exp)
        elif kind == 'data_path':
            for name, got in out.items():
                it = chain['insts'].get(name)
                if it is None:
                    continue
                self._check_path(op, chain, it, name, got)
        elif kind in ('run_info', 'log'):
            for name, got in out.items():
                it = chain['insts'].get(name)
                if it is None:
                    continue
                self._check_records(op, chain, it, name, kind, got)

    def _check_has_data(self, op, chain, it, name, got):
        if it.kind in PERSIST_NONE:
            if got:
                self.disc('C04', 'I-has-data', op['i'], f'in-memory task {name} reports stored data')
            return
        loc = self.loc(chain, it)
        collided = name in chain.get('collisions', ())
        if loc.state == 'indoubt':
            if got:
                loc.state = 'complete'     # claimed complete: a later load must yield the expected value (checked there, C05)
                self.stats['indoubt_resolved_present'] += 1
            else:
                loc.state = 'absent'
                loc.stage = loc.stage if loc.kind == 'cont' else 0
                self.stats['indoubt_resolved_absent'] += 1
            return
        exp = loc.state == 'complete'
        if got != exp and not collided:
            if loc.tainted or loc.fail_partial:
                prop = 'C05'
                msg = 'a result is visible although no run completed storing it' if got else 'a completely stored result disappeared after a fault'
            elif chain.get('forced_ctx'):
                prop = 'C07'
                msg = 'has_data after forcing'
            elif not got and loc.tree:
                prop = 'C12'
                msg = 'result stored by release 1.4.0 is not found by the current tree (orphaned)'
            else:
                prop = 'C01' if got else 'C04'
                msg = 'has_data reports a result nobody stored for this computation' if got else 'stored result not found (would be recomputed)'
            self.disc(prop, 'I-has-data', op['i'], f'{name}: {msg}', got=got, expected=exp)

    def _check_path(self, op, chain, it, name, got):
        if it.kind in PERSIST_NONE:
            if got is not None:
                self.disc('C12', 'I-layout', op['i'], f'in-memory task {name} has a data path', got=got)
            return
        loc = self.loc(chain, it)
        key = loc.key if chain['pmode'] else chain['cfgname'][it.cfg]
        ext = V.EXT[it.kind]
        exp = '/'.join(it.slug.split(':') + [key + ('.' + ext if ext else '')])
        if got != exp:
            self.disc('C12', 'I-layout', op['i'], f'{name}: data path is not <group levels>/<task name>/<key>.<ext>', got=got, expected=exp)

    def _check_records(self, op, chain, it, name, kind, got):
        loc = self.loc(chain, it)
        lr = loc.last_run
        if loc.state != 'complete' or lr is None or not lr.get('valid'):
            return
        self.stats['records_checked'] += 1
        rprop = 'C12' if loc.tree else 'C18'
        # known finding F11: for directory-type results the side files are named after Path(name).stem, which drops the part
        # of a config name after its last dot: in name mode 'model' and 'model.v2' share run info and log
        zone = None
        if not chain['pmode'] and V.EXT.get(it.kind) is None and self.dotted_namemode:
            zone = 'dotted_config_name_directory_side_files'
            rprop = 'C18'      # the collision is the same in release 1.4.0: not a change of the storage scheme
        if kind == 'log':
            if not lr.get('log_valid', True):
                return
            exp = lr['log']
            if lr.get('quiet'):
                if got not in ([], None) and got != []:
                    self.disc(rprop, 'I-records', op['i'], f'{name}: log holds messages although the run that produced the result logged nothing', got=(got or [])[:8], run=lr['run'], zone=zone)
                return
            if got is None:
                self.disc(rprop, 'I-records', op['i'], f'{name}: no log beside the result', expected=exp, zone=zone)
                return
            # first line "<task> - run started with params: ...", last "<task> - run ended"; in between exactly this run's messages
            # (the library writes its "run ended" line when `run` returns; the body of a returned generator executes after
            # that, so this run's messages are compared in order with that one line taken out wherever it stands)
            ended = f'{lr["task"]} - run ended'
            body = [m for m in got[1:] if m != ended] if len(got) >= 2 else None
            ok = (body == exp and got[0].startswith(f'{lr["task"]} - run started with params:') and got[1:].count(ended) == 1)
            if not ok:
                self.disc(rprop, 'I-records', op['i'], f'{name}: log does not hold exactly the messages of the run that produced the result',
                          got=got[:12], expected_body=exp, run=lr['run'], zone=zone)
        else:
            if not isinstance(got, dict):
                self.disc(rprop, 'I-records', op['i'], f'{name}: no run info beside the result', got=got, zone=zone)
                return
            problems = []
            if (got.get('task') or {}).get('name') != it.slug:
                problems.append(['task.name', (got.get('task') or {}).get('name'), it.slug])
            if (got.get('task') or {}).get('class') != it.cspec['py']:
                problems.append(['task.class', (got.get('task') or {}).get('class'), it.cspec['py']])
            if got.get('log') != lr['records']:
                problems.append(['log', got.get('log'), lr['records']])
            exp_params = set(p['name'] for p in it.cspec['params'])
            if set((got.get('parameters') or {}).keys()) != exp_params:
                problems.append(['parameters', sorted((got.get('parameters') or {}).keys()), sorted(exp_params)])
            else:
                for p in it.cspec['params']:
                    if p.get('ignore'):
                        continue       # ignored parameters may differ between chains that share the stored result
                    pv = lr['params_at_run'].get(p['name'], None)
                    er = _frozen_repr(pv) if p['name'] in lr['params_at_run'] and _plain(pv) and not p.get('placeholder') and not p.get('dtype') else None
                    if er is not None and got['parameters'][p['name']] != er:
                        problems.append(['parameters.' + p['name'], got['parameters'][p['name']], er])
            if chain['pmode'] and lr['input_keys'] is not None:
                gi = got.get('input_tasks')
                gi2 = sorted([_slug_of(n), k] for n, k in gi.items()) if isinstance(gi, dict) else gi
                if gi2 != lr['input_keys']:
                    problems.append(['input_tasks', gi, lr['input_keys']])
            cfg = got.get('config') or {}
            ns_ok = {i2.ns for m in self.models.values() for i2 in m.values() if (i2.slug, i2.D) == lr['slugD']}
            if cfg.get('namespace') not in ns_ok:
                problems.append(['config.namespace', cfg.get('namespace'), sorted(map(str, ns_ok))])
            # simulated clock: `started` is a clock reading taken during the request that ran it, before the body began
            if lr.get('t_body') is not None and lr.get('t_op') is not None:
                import datetime
                try:
                    ts = datetime.datetime.fromisoformat(str(got.get('started'))).timestamp()
                except Exception:
                    ts = None
                if ts is None or not (lr['t_op'] < ts <= lr['t_body']):
                    problems.append(['started', got.get('started'), [lr['t_op'], lr['t_body']]])
            if problems:
                self.disc(rprop, 'I-records', op['i'], f'{name}: run info does not describe the run that produced the result', problems=problems[:5], run=lr['run'], zone=zone)

    # ------------------------------------------------------------------ forcing
    def _apply_force(self, chain, names, delete, op, o):
        chain['forced_ctx'] = True
        for n in names:
            tok = chain['tok'][n]
            ob = self.proc['objs'][tok]
            ob.forced = True
            ob.mem = False
            it = chain['insts'][n]
            if delete and it.kind not in PERSIST_NONE:
                loc = self.loc(chain, it)
                if loc.state in ('complete', 'indoubt'):
                    # (whatever an interrupted or failed attempt left: after delete_data there is no stored result)
                    loc.state = 'absent'
                    loc.stage = 0
                    if it.kind in ('genlazy', 'dir', 'cont'):
                        # values of these kinds are references into the store; copies held by other task objects die with it
                        for t2, o2 in self.proc['objs'].items():
                            if t2 != tok and o2.mem and o2.locid == ob.locid:
                                o2.ref_invalid = True

    def _force_failed(self, chain, names):
        """force raised half-way: what it did is unknown - stop predicting for the tasks involved"""
        for n in names:
            it = chain['insts'][n]
            ob = self.proc['objs'][chain['tok'][n]]
            ob.unknown = True
            ob.mem = False
            if it.kind not in PERSIST_NONE:
                loc = self.loc(chain, it)
                loc.state = 'indoubt'
                loc.stage_exact = False
                loc.last_run = {'valid': False}
        for ob in self.proc['objs'].values():
            ob.unknown = True

    def _closure(self, chain, names):
        """named tasks and everything downstream, over task objects (one object = one computation; identical
        computations mounted under several namespaces are one node)"""
        tok = chain['tok']
        closure = {tok[n] for n in names}
        changed = True
        while changed:
            changed = False
            for n, ins in chain['in_toks'].items():
                if tok[n] not in closure and any(t in closure for t in ins):
                    closure.add(tok[n])
                    changed = True
        return {n for n in tok if tok[n] in closure}

    def _check_flags(self, op, o, chains, prop='C07'):
        flags = (o.get('res') or {}).get('flags')
        if flags is None:
            return
        for cid in chains:
            chain = self.proc['chains'].get(cid)
            if chain is None:
                continue
            fl = flags if len(chains) == 1 and cid not in flags else flags.get(cid, {})
            for name, got in fl.items():
                tok = chain['tok'].get(name)
                if tok is None:
                    continue
                exp = self.proc['objs'][tok].forced
                if got != exp:
                    self.disc(prop, 'I-forced', op['i'], f'is_forced of {name} after forcing {op.get("tasks") or op.get("task")}', got=got, expected=exp)

    def j_tforce(self, op, o):
        chain = self.proc['chains'].get(op['cid'])
        if chain is None:
            return
        name = op['name'] if 'name' in op else op['task']
        if o.get('crash'):
            # the process died inside Task.force: with delete_data the stored result is gone or still there - never partly there
            self.stats['crashes'] += 1
            it = chain['insts'][name]
            if op.get('delete') and it.kind not in PERSIST_NONE:
                loc = self.loc(chain, it)
                if loc.state != 'absent':
                    loc.state = 'indoubt'
                loc.tainted = True
                loc.faulted = True
                loc.stage_exact = False
                loc.last_run = {'valid': False}
            return
        if 'err' in (o.get('res') or {}):
            if any(f[0] == 'diskerr' for f in o.get('fired', [])) and o['res']['err'][0] in ('OSError', 'PermissionError', 'FileNotFoundError', 'IsADirectoryError', 'NotADirectoryError'):
                # an injected file-system error while the stored result was being deleted: force reports it; what is left is unknown
                self.stats['force_delete_diskerr'] = self.stats.get('force_delete_diskerr', 0) + 1
                # whether the task counts as forced after the failed call is not stated anywhere: the observed flag is taken over
                fl = o['res'].get('flags') or {}
                if name in fl:
                    self.proc['objs'][chain['tok'][name]].forced = bool(fl[name])
                if fl.get(name) is True and not any(ob_.unknown for ob_ in self.proc['objs'].values()):
                    # the task reports itself as forced: by C07 its next value request executes run again - whatever the failed
                    # deletion left behind and whatever the object held in memory. Nothing else in the process was touched.
                    it = chain['insts'][name]
                    ob = self.proc['objs'][chain['tok'][name]]
                    ob.mem = False
                    for t2, o2 in self.proc['objs'].items():
                        if o2 is not ob and o2.locid == ob.locid:
                            o2.unknown = True
                    if it.kind not in PERSIST_NONE:
                        loc = self.loc(chain, it)
                        loc.state = 'indoubt'
                        loc.stage_exact = False
                        loc.last_run = {'valid': False}
                    self.stats['forced_after_failed_delete'] = self.stats.get('forced_after_failed_delete', 0) + 1
                    return
            else:
                self.disc('C07', 'I-force', op['i'], 'Task.force raised', err=o['res']['err'], task=name, delete=op.get('delete'))
            self._force_failed(chain, [name])
            return
        if o['inv']:
            self.disc('C07', 'I-runs', op['i'], 'run executed by Task.force', ran=o['inv'])
        self._apply_force(chain, [name], op.get('delete', False), op, o)
        self._check_flags(op, o, [op['cid']])

    def j_cforce(self, op, o):
        chain = self.proc['chains'].get(op['cid'])
        if chain is None:
            return
        if 'err' in (o.get('res') or {}) and not o.get('crash'):
            closure = sorted(self._closure(chain, op.get('names') or op['tasks']))
            if op.get('fault_expected') and op.get('recompute') and o['res']['err'][0] == 'RunFault':
                # a run failed inside the recomputation: Chain.force passes the error on. Marking is complete before anything
                # is recomputed, so every task of the closure that did not get to run inside this call is still forced
                self.stats['force_recompute_failed'] = self.stats.get('force_recompute_failed', 0) + 1
                ran = {(_slug_of(r['task']), r.get('key')) for r in o['inv']}
                flags = o['res'].get('flags') or {}
                for n in closure:
                    it = chain['insts'][n]
                    if (it.slug, chain['keys'].get(n)) not in ran and n in flags and flags[n] is not True:
                        self.disc('C07', 'I-forced', op['i'], f'{n} was neither recomputed nor is it still marked forced after Chain.force(recompute=True) failed in another task',
                                  flags={k: v for k, v in flags.items() if k in closure}, ran=sorted(map(str, ran)))
                self._apply_force(chain, closure, False, op, o)
                # missing upstream results were computed on demand before the failure: which of them is not predicted
                for n2, it2 in chain['insts'].items():
                    if it2.kind not in PERSIST_NONE:
                        loc2 = self.loc(chain, it2)
                        if loc2.state == 'absent':
                            loc2.state = 'indoubt'
                            loc2.stage_exact = False
                            loc2.last_run = {'valid': False}
            else:
                self.disc('C07', 'I-force', op['i'], 'Chain.force raised', err=o['res']['err'], tasks=op.get('names') or op['tasks'], delete=op.get('delete'))
            self._force_failed(chain, closure)
            return
        names = op.get('names') or op['tasks']
        forced = self._closure(chain, names)
        self._apply_force(chain, sorted(forced), op.get('delete', False), op, o)
        if op.get('recompute'):
            ev = Eval(self, chain, op, o)
            for n in sorted(forced):
                ev.request(n, top=True)
            ev.finish_multiset('C07')
        elif o['inv']:
            self.disc('C07', 'I-runs', op['i'], 'run executed by Chain.force without recompute', ran=o['inv'])
        self._check_flags(op, o, [op['cid']])

    def j_mforce(self, op, o):
        cids = self.proc['multis'].get(op['mid'])
        if not cids:
            return
        if 'err' in (o.get('res') or {}):
            self.disc('C13', 'I-force', op['i'], 'MultiChain.force raised', err=o['res']['err'])
            return
        all_forced = set()
        evs = []
        for cid in cids:
            chain = self.proc['chains'].get(cid)
            if chain is None:
                continue
            names = [n for n in (op.get('names') or op['tasks'])]
            # a name missing in a member chain makes Chain.force raise; generator only names tasks present in all members
            forced = self._closure(chain, [n for n in names if n in chain['insts']])
            self._apply_force(chain, sorted(forced), op.get('delete', False), op, o)
            if op.get('recompute'):
                ev = Eval(self, chain, op, o, lenient=True)
                for n in sorted(forced):
                    ev.request(n, top=True)
                evs.append(ev)
                all_forced |= {chain['tok'][n] for n in forced}
        if op.get('recompute'):
            # at least once per forced object; nothing that was neither forced nor needed-and-missing
            pred_tasks = {}
            for ev in evs:
                for (slug, key, nm) in ev.pred:
                    pred_tasks[(slug, key)] = pred_tasks.get((slug, key), 0) + 1
            got = {}
            for r in o['inv']:
                k = (_slug_of(r['task']), r.get('key'))
                got[k] = got.get(k, 0) + 1
            for t, n in pred_tasks.items():
                if got.get(t, 0) < 1:
                    self.disc('C13', 'I-runs', op['i'], f'forced task {t[0]} was not recomputed through MultiChain.force', got=sorted(map(str, got)))
            for t in got:
                if t not in pred_tasks:
                    self.disc('C13', 'I-runs', op['i'], f'task {t[0]} ran although neither forced nor needed', got=sorted(map(str, got)))
        elif o['inv']:
            self.disc('C13', 'I-runs', op['i'], 'run executed by MultiChain.force without recompute', ran=o['inv'])
        self._check_flags(op, o, cids, prop='C13')

    # ------------------------------------------------------------------ faults, misc
    def j_armrun(self, op, o):
        self.proc['faults'][op['slug']] = [op['kind'], op.get('at')]

    def j_rev(self, op, o):
        self.rev = dict(op['map'])
        self.rev_used = True

    def j_disarm(self, op, o):
        self.proc['faults'].clear()

    def j_quietlog(self, op, o):
        self.proc['quiet'] = bool(op.get('on', True))

    def j_ls(self, op, o):
        store = op.get('store', 'main')
        ls = (o.get('res') or {}).get('ls') or {}
        prev = self.listings.get(store)
        self.listings[store] = ls
        if op.get('expect') == 'error_dirs':
            # work directories of failed directory-producing tasks are set aside as <key>_error; nothing partial is published
            for (st, lid), loc in self.store.items():
                if st != store or loc.kind != 'dir' or not loc.err_dir or not loc.key:
                    continue
                base = '/'.join(loc.slug.split(':')) + '/' + loc.key
                self.stats['error_dir_checked'] += 1
                if base + '_error' not in ls:
                    self.disc('C05', 'I-set-aside', op['i'], f'work directory of the failed directory task {loc.slug} was not set aside as <key>_error',
                              present=sorted(k for k in ls if k.startswith(base))[:6])
                elif loc.err_partial and base + '_error/partial.txt' not in ls:
                    self.disc('C05', 'I-set-aside', op['i'], f'{loc.slug}: the set-aside directory does not hold the failed run\'s work', present=sorted(k for k in ls if k.startswith(base))[:6])
                elif loc.err_partial and loc.err_partial is not True:
                    # the LATEST failed attempt's work is what was set aside (anywhere under a <key>_error* directory)
                    want = f'partial {loc.err_partial}'.encode()
                    want = [len(want), V.sha(want)]
                    have = [v for k, v in ls.items() if k.startswith(base + '_error') and k.endswith('/partial.txt')]
                    if want not in have:
                        self.disc('C05', 'I-set-aside', op['i'], f'{loc.slug}: the work directory of the latest failed run was not set aside (an earlier failure\'s is there)',
                                  present=sorted(k for k in ls if k.startswith(base))[:6])
                if loc.state != 'complete' and base in ls:
                    self.disc('C05', 'I-visible', op['i'], f'{loc.slug}: a directory result is published although its run failed', present=sorted(k for k in ls if k.startswith(base))[:6])
        exp = op.get('expect')
        if exp == 'unchanged' and prev is not None:
            # kept work of unfinished resumable computations (<name>_tmp of ContinuesData tasks) is part of the directory like any result
            cont_dirs = tuple('/'.join(c_['slug'].split(':')) + '/' for c_ in self.world['classes'] if c_['kind'] == 'cont')

            def kept_work(k):
                return bool(cont_dirs) and '_tmp/' in k and k.startswith(cont_dirs) and (prev.get(k) is not None or ls.get(k) is not None)
            changed = sorted(k for k in set(prev) | set(ls) if ((k in prev) != (k in ls) or prev.get(k) != ls.get(k)) and (not _is_work_path(k) or kept_work(k)))
            files = [k for k in changed if prev.get(k) is not None or ls.get(k) is not None]
            dirs = [k for k in changed if k not in files]
            if files:
                self.disc('C20', 'I-source', op['i'], f'migration changed files of the {op.get("what", "source")} directory',
                          changed=[[k, prev.get(k, 'absent'), ls.get(k, 'absent')] for k in files[:5]])
            elif dirs:
                self.disc('C20', 'I-source-dirs', op['i'], f'migration created or removed directories in the {op.get("what", "source")} directory',
                          zone='migration_source_dirs_created' if op.get('what', 'source') == 'source' and all(k in ls and k not in prev for k in dirs) else None,
                          dirs=dirs[:6])
        if exp == 'no_files':
            files = [k for k, v in ls.items() if v is not None]
            if files:
                self.disc('C20', 'I-dry', op['i'], 'dry migration wrote files into the target directory', files=files[:5])

    def j_migrate(self, op, o):
        res = o.get('res') or {}
        if o['inv']:
            self.disc('C20', 'I-runs', op['i'], 'migration executed a run', ran=o['inv'])
        if o.get('crash'):
            # the migrating process died: whatever it had copied so far is in the target, the last file possibly torn
            self.stats['crashes'] += 1
            self.mig_interrupted.add(op['target'])
            for name, it in self.model(op['root'], None).items():
                if it.kind in PERSIST_NONE:
                    continue
                k = (op['target'], it.D)
                if k not in self.store:
                    self.store[k] = Loc(it.kind, it.slug, it.cspec.get('cont_steps', 0))
                if self.store[k].state != 'complete':
                    self.store[k].state = 'indoubt'
                    self.store[k].tainted = True
                    self.store[k].stage_exact = False
            return
        if 'err' in res:
            if op['target'] in self.mig_interrupted and not op.get('dry', True):
                # the re-run refuses the half-copied target of an interrupted migration: nothing is claimed about that target
                self.stats['migration_refused_after_crash'] = self.stats.get('migration_refused_after_crash', 0) + 1
                self.broken_stores.add(op['target'])
                return
            self.disc('C20', 'I-migrate', op['i'], 'migrate_to_parameter_mode raised', err=res['err'], dry=op.get('dry'))
            return
        if op.get('dry', True):
            return
        if op['target'] in self.mig_interrupted and op['target'] not in self.broken_stores:
            self.stats['migration_completed_after_crash'] = self.stats.get('migration_completed_after_crash', 0) + 1
        insts = self.model(op['root'], None)
        suffix = op['render'].get('name_suffix', '')
        for name, it in insts.items():
            if it.kind in PERSIST_NONE:
                continue
            cfgname = _cfgname(self.world['configs'][it.cfg]['name'], op['render'])
            src = self.store.get((op.get('store', 'src'), f'name:{it.slug}:{cfgname}'))
            if src is not None and src.state == 'indoubt':
                # the source itself has an interrupted run in its history: whether there is a result to carry over is unknown
                k = (op['target'], it.D)
                if k not in self.store:
                    self.store[k] = Loc(it.kind, it.slug, it.cspec.get('cont_steps', 0))
                if self.store[k].state != 'complete':
                    self.store[k].state = 'indoubt'
                    self.store[k].tainted = True
                    self.store[k].stage_exact = False
                continue
            if src is None or src.state != 'complete':
                continue
            k = (op['target'], it.D)
            if k not in self.store:
                self.store[k] = Loc(it.kind, it.slug, it.cspec.get('cont_steps', 0))
            t = self.store[k]
            if t.state != 'complete':
                t.state = 'complete'
                t.writer = it.D
                t.tainted = False
                t.last_run = None
                t.migrated = True


def _cfgname(name, render):
    """config name as documented: file name without extension (plus '#part' for a part of a multi-config file), or the given name"""
    sfx = render.get('name_suffix', '')
    if str(render.get('form', '')).startswith('multi'):
        return f'all{sfx}#{name}{sfx}'
    return name + sfx


def _has_pset(it):
    """does this computation (or anything upstream of it) take a parameter object that stores a python set?"""
    seen = set()
    work = [it]
    while work:
        t = work.pop()
        if t.fullname in seen:
            continue
        seen.add(t.fullname)
        if 'PSet' in json.dumps(t.persisted, default=str):
            return True
        work.extend(t.inputs.values())
    return False


def _has_optdict(it):
    """does this computation (or anything upstream of it) take a parameter object with a mapping-valued argument of two or more keys?"""
    def multi(v):
        if isinstance(v, dict) and 'class' in v:
            kw = v.get('kwargs') or {}
            if v['class'].endswith('.POpt') and len([k for k in kw if k != 'a']) >= 2:
                return True
            return any(multi(x) for x in kw.values())
        if isinstance(v, dict):
            return any(multi(x) for x in v.values())
        if isinstance(v, list):
            return any(multi(x) for x in v)
        return False
    seen = set()
    work = [it]
    while work:
        t = work.pop()
        if t.fullname in seen:
            continue
        seen.add(t.fullname)
        if multi(t.persisted):
            return True
        work.extend(t.inputs.values())
    return False


def _has_pathobj(it):
    """does this computation (or anything upstream of it) declare a persisted Path-typed parameter whose default is a Path object?"""
    seen = set()
    work = [it]
    while work:
        t = work.pop()
        if t.fullname in seen:
            continue
        seen.add(t.fullname)
        if any(p.get('pathobj_default') and not p.get('dpd') and not p.get('ignore') for p in t.cspec['params']):
            return True
        work.extend(t.inputs.values())
    return False


import re
_WORK_RE = re.compile(r'(_tmp|_error|_old|_migration)(\.[A-Za-z0-9]+)?$')


def _is_work_path(rel):
    """paths that are work areas / side files, not results: <key>_tmp*, <key>_error, <key>_old, logs, run infos, links"""
    base = rel.rsplit('/', 1)[-1]
    for comp in rel.split('/'):
        if _WORK_RE.search(comp):
            return True
    return base.endswith('.log') or base.endswith('.run_info.yaml')


def _plain(v):
    if isinstance(v, dict):
        return 'class' not in v and '$intkeys' not in v and all(_plain(x) for x in v.values())
    if isinstance(v, list):
        return all(_plain(x) for x in v)
    return True


def _frozen_repr(v):
    """release-1.4.0 value representation for plain JSON-like values (documented in the run info as `parameters`)."""
    if isinstance(v, list):
        return '[' + ', '.join(_frozen_repr(x) for x in v) + ']'
    if isinstance(v, dict):
        return '{' + ', '.join(f'{_frozen_repr(k)}: {_frozen_repr(x)}' for k, x in sorted(v.items())) + '}'
    if isinstance(v, str):
        return f"'{v}'"
    return repr(v)


class Eval:
    """prediction of one value request (or a set of them) against the model, resolved against the observed invocations.
    Invocations are identified by (task slug, storage key): a task object shared between namespaces logs under one name."""

    def __init__(self, judge, chain, op, o, lenient=False):
        self.j = judge
        self.chain = chain
        self.op = op
        self.o = o
        self.obs_inv = [(_slug_of(r['task']), r.get('key')) for r in o['inv']]
        self.pos = 0
        self.pred = []             # predicted invocations: (slug, key, name)
        self.loads = []
        self.touched = []          # (name, inst, loc, obj) whose run started
        self.lenient = lenient
        self.faults = judge.proc['faults']
        self.unknown = False
        self.skip_value = False
        self.top = None
        self.taint_seen = False      # some location this request touches had a fault/failed run since it was last known complete

    def ident(self, name):
        it = self.chain['insts'][name]
        return (it.slug, self.chain['keys'].get(name))

    def request(self, name, top=False):
        """-> 'ok' | 'fail'"""
        j = self.j
        chain = self.chain
        if self.top is None:
            self.top = name
        it = chain['insts'][name]
        tok = chain['tok'][name]
        ob = j.proc['objs'][tok]
        if ob.unknown:
            self.unknown = True
        if ob.mem:
            j.stats['mem_hits'] += 1
            if ob.ref_invalid and top_name_is(self, name):
                self.skip_value = True
            return 'ok'
        ob.ref_invalid = False
        persisted = it.kind not in PERSIST_NONE
        loc = j.loc(chain, it) if persisted else None
        if loc is not None and (loc.tainted or loc.fail_partial or loc.faulted):
            self.taint_seen = True
        if persisted and not ob.forced:
            if loc.state == 'complete':
                ob.mem = True
                ob.vh = loc.vh
                self.loads.append((name, it, loc))
                j.stats['loads'] += 1
                return 'ok'
            if loc.state == 'indoubt':
                if not self._peek_runs_next(it, name):
                    loc.state = 'complete'
                    j.stats['indoubt_resolved_present'] += 1
                    ob.mem = True
                    ob.vh = loc.vh
                    self.loads.append((name, it, loc))
                    return 'ok'
                loc.state = 'absent'
                j.stats['indoubt_resolved_absent'] += 1
        # ---- run
        style = it.cspec['style']
        read_order = list(it.cspec['reads'])
        if style == 'args':
            read_order = [i for i in range(len(it.cspec['inputs'])) if i in it.cspec['reads']]
        in_names = []
        for idx in read_order:
            inp, target = it.rel_inputs[idx]
            if target is not None:
                in_names.append(target.fullname)
        fault = self.faults.get(it.slug)

        def inputs():
            for n in in_names:
                if self.request(n) == 'fail':
                    return 'fail'
            return 'ok'

        if style == 'args':
            if inputs() == 'fail':
                self._failed(it, ob, loc, started=False)
                return 'fail'
        ident = self.ident(name)
        self.pred.append((ident[0], ident[1], name))
        j.stats['runs'] += 1
        if ob.forced:
            j.stats['forced_runs'] += 1
        rec = self._consume(ident)
        if loc is not None:
            self.touched.append((name, it, loc, ob))
        if fault and fault[0] == 'raise_start':
            del self.faults[it.slug]
            j.stats['runfaults'] += 1
            self._failed(it, ob, loc, started=True)
            return 'fail'
        if style != 'args':
            if inputs() == 'fail':
                self._failed(it, ob, loc, started=True)
                return 'fail'
        if fault and fault[0] == 'raise_after_inputs':
            del self.faults[it.slug]
            j.stats['runfaults'] += 1
            self._failed(it, ob, loc, started=True)
            return 'fail'
        if it.kind == 'cont' and rec is not None and 'resumed_from' in rec:
            # kept work directory: the run continues from the steps already done (exact unless a crash made it unknown)
            if loc.stage_exact:
                if rec['resumed_from'] != loc.stage:
                    j.disc('C05', 'I-resume', self.op['i'], f'{name}: resumable task did not continue from its kept work directory',
                           resumed_from=rec['resumed_from'], expected=loc.stage)
                elif loc.stage > 0:
                    j.stats['cont_resumed'] += 1
            elif rec['resumed_from'] > loc.steps:
                j.disc('C05', 'I-resume', self.op['i'], f'{name}: more steps in work directory than the task has', resumed_from=rec['resumed_from'])
        if fault and fault[0] in ('raise_before_return', 'mistyped', 'unserializable', 'gen_raise'):
            if fault[0] != 'gen_raise' or it.kind in ('gen', 'genlazy'):
                del self.faults[it.slug]
                j.stats['runfaults'] += 1
                if loc is not None and (fault[0] == 'unserializable' or (fault[0] == 'gen_raise' and it.kind == 'genlazy')):
                    loc.fail_partial = True   # serialization started: nothing of it may become visible
                if it.kind == 'cont' and fault[0] == 'raise_before_return':
                    base = loc.stage if loc.stage_exact else (rec or {}).get('resumed_from', 0)
                    loc.stage = min(base + 1, loc.steps)
                    loc.stage_exact = True
                self._failed(it, ob, loc, started=True, set_aside=('partial' if fault[0] == 'raise_before_return' else True),
                             partial_n=(rec or {}).get('partial'))
                return 'fail'
        # success
        vh = None
        if j.rev_used:
            # the value depends on the revision of the external resource at run time and on the values the inputs returned
            reads = {}
            dyn = bool(j.rev.get(it.slug, 0))
            for rn in it.reads:
                t = it.inputs[rn]
                tvh = j.proc['objs'][chain['tok'][t.fullname]].vh
                dyn = dyn or tvh is not None
                reads[rn] = V.digest(j.expected(t, tvh))
            if dyn:
                vh = (V.digest({'t': it.slug, 'p': it.record['p'], 'i': reads}), j.rev.get(it.slug, 0))
                if vh == (it.h, 0):
                    vh = None
                else:
                    j.stats['rev_runs'] = j.stats.get('rev_runs', 0) + 1
        ob.vh = vh
        if j.rev_used and it.kind in ('genlazy', 'dir', 'cont'):
            # values of these kinds are references into the store: copies held by other task objects now show the new result
            for t2, o2 in j.proc['objs'].items():
                if o2 is not ob and o2.mem and o2.locid == ob.locid:
                    o2.vh = vh
        if loc is not None:
            loc.vh = vh
            loc.state = 'complete'
            loc.tainted = False
            loc.fail_partial = False
            loc.writer = it.D
            loc.stage = 0
            loc.stage_exact = True
            loc.tree = j.proc.get('tree')
        ob.mem = True
        self._record_run(name, it, loc, chain, rec)
        return 'ok'

    def _record_run(self, name, it, loc, chain, rec):
        if loc is None:
            return
        lr = {'valid': False}
        if rec is not None:
            runid = rec['run']
            nlog = it.cspec.get('nlog', 0)
            import datetime
            lr = {
                'valid': True, 'run': runid, 'task': rec['task'],
                'log': [f'marker {runid} begin'] + [f'marker {runid} step {k}' for k in range(nlog)] + ([f"marker {runid} progress {{'done': 0}}"] if not V.helper_thread_logs(it.slug + '/lazy') else []) + ([f'marker {runid} helper thread'] if V.helper_thread_logs(it.slug) else []) + ([f'marker {runid} gen'] if it.kind in ('gen', 'genlazy') and not self.j.proc.get('tree') else []),   # (release 1.4.0 detached the log before a generator body ran: F19)
                'records': [{'marker': runid, 'n': 0}] + [{'marker': runid, 'n': k + 1} for k in range(nlog)] + ([{'marker': runid, 'n': 'gen'}] if it.kind in ('gen', 'genlazy') else []),
                'params_at_run': dict(it.all_params),
                'input_keys': sorted([t.slug, self.j.key_of_D.get(t.D)] for t in it.inputs.values()) if chain['pmode'] else None,
                'slugD': (it.slug, it.D),
                'quiet': bool(self.j.proc.get('quiet')),
                't_body': rec.get('started'),
                't_op': (self.o.get('clock') or [None])[0],
            }
        loc.last_run = lr

    def _failed(self, it, ob, loc, started, set_aside=True, partial_n=None):
        ob.mem = False
        if loc is not None:
            loc.tainted = True     # a run of it failed: what is asked of later requests is C05's "always recovers"
            loc.faulted = True

        if loc is not None and loc.last_run:
            # a failed attempt (also one that failed while pulling its inputs) has rewritten the log (nothing is demanded of it then); the run info still belongs to the
            # run that produced the stored result
            loc.last_run = dict(loc.last_run, log_valid=False)
        if loc is not None and it.kind == 'dir' and started:
            loc.err_dir = True
            loc.err_partial = (partial_n or True) if set_aside == 'partial' else False

    def _peek_runs_next(self, it, name):
        """does the observed invocation stream continue with a run belonging to `name` (or, for run-argument style, to
        one of its upstream tasks followed by it)?"""
        if self.pos >= len(self.obs_inv):
            return False
        ident = self.ident(name)
        if self.obs_inv[self.pos] == ident:
            return True
        if it.cspec['style'] == 'args':
            return ident in self.obs_inv[self.pos:]
        return False

    def _consume(self, ident):
        if self.pos < len(self.obs_inv) and self.obs_inv[self.pos] == ident:
            rec = self.o['inv'][self.pos]
            self.pos += 1
            return rec
        # out of order: find it anywhere (the order check reports it)
        for k in range(len(self.obs_inv)):
            if self.obs_inv[k] == ident:
                return self.o['inv'][k]
        return None

    # ---------------------------------------------------------------- comparison
    def _old_tree(self, idents):
        """some of these runs recomputed a result that the earlier release had stored"""
        chain = self.chain
        for (slug, key) in idents:
            for n, it in chain['insts'].items():
                if it.slug == slug and it.kind not in PERSIST_NONE:
                    loc = self.j.loc(chain, it)
                    if loc.tree and loc.state == 'complete':
                        return True
        return False

    def _forced_names(self, idents):
        chain = self.chain
        out = []
        for (slug, key) in idents:
            for n, it in chain['insts'].items():
                if it.slug == slug and chain['keys'].get(n) == key and self.j.proc['objs'][chain['tok'][n]].forced:
                    out.append(n)
        return out

    def finish(self, outcome, name, res, crash, diskerr):
        j = self.j
        op = self.op
        chain = self.chain
        it = chain['insts'][name]
        got_inv = list(self.obs_inv)
        pred_inv = [(p[0], p[1]) for p in self.pred]
        if crash or diskerr:
            j.stats['crashes' if crash else 'diskerr'] += 1
            if self.o.get('torn'):
                j.stats['torn'] += 1
            self._classify_crash()
            # every location whose run may have started is in doubt; so is anything the model thought it would run
            for (n, it2, loc, ob) in self.touched:
                loc.state = 'indoubt'
                loc.tainted = True
                loc.faulted = True
                loc.stage_exact = False
                loc.last_run = {'valid': False}
            if diskerr:
                for ob in j.proc['objs'].values():
                    ob.unknown = True
                    ob.mem = False
            if diskerr and not crash:
                if 'ok' in res and res['ok'] != it.expected and not j.rev_used:
                    j.disc('C05', 'I-visible', op['i'], f'{name}: wrong value returned after an injected disk error', got=_short(res['ok']), expected=_short(it.expected))
            return
        if self.unknown:
            # in-memory state unknown after an earlier disk error in this process: only values are checked
            if 'ok' in res and res['ok'] != it.expected and not j.rev_used:
                j.disc('C05', 'I-visible', op['i'], f'{name}: wrong value after an earlier disk error', got=_short(res['ok']), expected=_short(it.expected))
            if 'err' in res and outcome != 'fail':
                # the disk error is over (one-shot): requesting the value again has to recover, also through the same task object
                j.disc('C05', 'I-recover', op['i'], f'{name}: request keeps failing after an earlier (transient) disk error', err=res['err'])
            ran = set(got_inv)
            for (n, it2, loc, ob) in self.touched:
                loc.last_run = {'valid': False}
                if 'ok' not in res or (it2.slug, chain['keys'].get(n)) not in ran:
                    # (a predicted run that was not observed: the value came from memory the model knows nothing about -
                    # whether the location holds a result is as unknown as before)
                    loc.state = 'indoubt'
                    loc.stage_exact = False
            return
        tainted = self.taint_seen or any(loc.tainted for (_, _, loc) in self.loads) or any(l.tainted for (_, _, l, _) in self.touched)
        # ---- invocations
        if got_inv != pred_inv:
            extra = _multiset_diff(got_inv, pred_inv)
            missing = _multiset_diff(pred_inv, got_inv)
            if extra:
                if tainted:
                    prop = 'C05'
                elif self._forced_names(extra):
                    prop = 'C07'
                elif self._old_tree(extra):
                    prop = 'C12'
                else:
                    prop = 'C04'
                j.disc(prop, 'I-runs', op['i'], f'request of {name}: run executed although not needed: {[e[0] for e in extra]}', got=got_inv, predicted=pred_inv)
            if missing:
                if self._forced_names(missing):
                    prop = 'C07'
                elif tainted:
                    prop = 'C05'
                else:
                    prop = 'C01'
                j.disc(prop, 'I-runs', op['i'], f'request of {name}: needed run did not happen: {[e[0] for e in missing]}', got=got_inv, predicted=pred_inv)
            if not extra and not missing:
                j.disc('C04', 'I-run-order', op['i'], f'request of {name}: runs happened in an order that is not upstream-on-demand', got=got_inv, predicted=pred_inv)
        # ---- loads touch nothing upstream, modify nothing
        if self.loads and not self.pred:
            self._check_pure_load(name)
        if not self.loads and not self.pred and not tainted:
            # served from memory: nothing is read from or written to the store
            ev = [f for f in self.o['fs'] if not _is_work_path(f[1])]
            if ev:
                j.disc('C13' if j.cur_multi else 'C04', 'I-memory', op['i'], f'{name}: value held in memory was not served from memory', fs=ev[:4])
            elif j.cur_multi:
                j.stats['mem_shared_multichain'] += 1
        # ---- outcome
        if outcome == 'fail':
            if 'ok' in res:
                j.disc('C05', 'I-fault', op['i'], f'{name}: request returned a value although run failed / returned an invalid value', got=_short(res['ok']))
            return
        if 'err' in res:
            if tainted or any(l.fail_partial for (_, _, l) in self.loads):
                prop = 'C05'
                msg = 'request fails after an earlier fault instead of recovering'
            elif self.loads and not self.pred:
                prop = 'C06'
                msg = 'stored result cannot be loaded'
            else:
                prop = 'C01'
                msg = 'request raised'
            j.disc(prop, 'I-value', op['i'], f'{name}: {msg}', err=res['err'], loads=[n for (n, _, _) in self.loads], runs=[p[2] for p in self.pred])
            for (n, it2, loc, ob) in self.touched:
                loc.state = 'indoubt'
                loc.stage_exact = False
                loc.last_run = {'valid': False}
            return
        got = res.get('ok')
        exp = j.expected(it, j.proc['objs'][chain['tok'][name]].vh)
        if got != exp and not self.skip_value:
            loaded_here = any(n == name for (n, _, _) in self.loads)
            if tainted:
                prop = 'C05'
                msg = 'partial, stale or foreign value visible after a fault'
            elif name in chain.get('collisions', ()):
                prop = 'C01'
                msg = 'value of another computation returned (two computations on one location)'
            elif loaded_here:
                loc = j.loc(chain, it)
                prop = 'C06' if (not chain['pmode'] or loc.writer == it.D) else 'C01'
                msg = 'loaded value differs from the value run returned' if prop == 'C06' else 'stale or foreign value loaded'
            else:
                prop = 'C01'
                msg = 'computed value does not correspond to the configuration (stale/foreign input or parameter)'
            j.disc(prop, 'I-value', op['i'], f'{name}: {msg}', got=_short(got, 300), expected=_short(exp, 300),
                   loads=[n for (n, _, _) in self.loads], runs=[p[2] for p in self.pred])
            if loaded_here and j.loc(chain, it).tree:
                j.disc('C12', 'I-reuse', op['i'], f'{name}: a result stored by release 1.4.0 is not loaded back as the value it was stored from', got=_short(got, 300), expected=_short(exp, 300))
            if prop != 'C01' and not (isinstance(got, dict) and '$canon_error' in got):
                # whatever the cause: a well-formed value that is not the computation's was handed to the caller
                j.disc('C01', 'I-value', op['i'], f'{name}: wrong value returned ({msg})', got=_short(got, 300), expected=_short(exp, 300))
        if len(self.loads) == 1 and not self.pred and it.inputs:
            j.stats['loaded_without_upstream'] += 1
        if self.pred and any(t is not None and i not in it.cspec['reads'] for i, (inp, t) in enumerate(it.rel_inputs)):
            j.stats['skipped_unread_missing_input'] += 1

    def finish_multiset(self, prop):
        j = self.j
        op = self.op
        got_inv = sorted(map(str, self.obs_inv))
        pred_inv = sorted(str((p[0], p[1])) for p in self.pred)
        if self.o.get('crash'):
            for (n, it2, loc, ob) in self.touched:
                loc.state = 'indoubt'
                loc.tainted = True
                loc.stage_exact = False
                loc.last_run = {'valid': False}
            return
        if self.unknown:
            return
        if got_inv != pred_inv:
            j.disc(prop, 'I-runs', op['i'], 'recompute did not run exactly the forced tasks (and needed missing ones) once each',
                   got=got_inv, predicted=pred_inv)

    def _check_pure_load(self, name):
        j = self.j
        own = {l.key for (_, _, l) in self.loads if l.key}
        if not self.chain['pmode']:
            own |= set(self.chain['cfgname'].values())
        for f in self.o['fs']:
            rel = f[1]
            if f[0] in ('wopen', 'rename', 'remove', 'truncate', 'rmdir') and not _is_work_path(rel):
                j.disc('C06', 'I-load-pure', self.op['i'], f'loading {name} modified the store', event=f)
            if f[0] == 'ropen':
                parts = rel.split('/')
                hit = any(p == k_ or p.startswith(k_ + '.') for p in parts for k_ in own)
                if not hit:
                    j.disc('C04', 'I-load-upstream', self.op['i'], f'loading {name} opened another result ({rel})', event=f)

    def _classify_crash(self):
        j = self.j
        at = self.o.get('at') or ['', '']
        rel = at[1] if len(at) > 1 else ''
        base = rel.rsplit('/', 1)[-1]
        if '_tmp' in base or self.o.get('last_wopen'):
            j.stats['crash_in_save'] += 1
        if '_old' in base or (at[0] == 'rename' and '_tmp' in base):
            j.stats['crash_in_replace_dir'] += 1
        if '_error' in base:
            j.stats['crash_in_error_handler'] += 1
        if len(self.o['inv']) >= 2:
            j.stats['crash_in_nested_run'] += 1


def top_name_is(ev, name):
    return ev.top == name


def _slug_of(fullname):
    return fullname.split('::')[-1]


def _upstream(it):
    out = set()
    work = list(it.inputs.values())
    while work:
        t = work.pop()
        if t.fullname in out:
            continue
        out.add(t.fullname)
        work.extend(t.inputs.values())
    return out


def _multiset_diff(a, b):
    b = list(b)
    out = []
    for x in a:
        if x in b:
            b.remove(x)
        else:
            out.append(x)
    return out


def judge(scn, obs):
    j = Judge(scn)
    j.run(obs)
    return j
