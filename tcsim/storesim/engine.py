"""storesim as a core.Engine"""
import copy
import json
from ..core import Engine
from . import executor, judge as J, scen


_MARK = None


def _strip_numbering(o):
    """replace run ids, markers and clock readings (whose numbering follows the arbitrary order inside an earlier
    set-ordered recompute) by '#', structurally"""
    import re
    global _MARK
    if _MARK is None:
        _MARK = re.compile(r'marker \d+\.\d+')
    if isinstance(o, dict):
        return {k: ('#' if k in ('run', 'started', 'ended', 'time', 'clock', 'marker') else _strip_numbering(v)) for k, v in o.items()}
    if isinstance(o, list):
        return [_strip_numbering(x) for x in o]
    if isinstance(o, str):
        return _MARK.sub('marker #', o)
    return o


class StoreEngine(Engine):
    name = 'storesim'
    GENERATORS = {}

    def setup_worker(self):
        return executor.Zygotes()

    def teardown_worker(self, ctx):
        if ctx is not None:
            ctx.close()

    explicit = None

    def generate(self, profile, rng, index):
        if profile.startswith('explicit'):
            return copy.deepcopy(self.explicit[index])
        return self.GENERATORS[profile](rng)

    def execute(self, scn, ctx):
        return executor.execute(scn, ctx)

    def judge(self, scn, obs):
        j = J.judge(scn, obs)
        fired = {}
        for o in obs:
            if o.get('crash'):
                fired['crash'] = fired.get('crash', 0) + 1
                at = o.get('at') or []
                if len(at) > 2 and at[2] in ('after', 'interrupt'):
                    fired['crash_' + at[2]] = fired.get('crash_' + at[2], 0) + 1
                    if at[0] == 'write':
                        fired['crash_interrupt_inside_write'] = fired.get('crash_interrupt_inside_write', 0) + 1
                if o.get('torn'):
                    fired['torn_write'] = fired.get('torn_write', 0) + 1
            for f in o.get('fired', []):
                k = f[0] if f[0] != 'runfault' else 'run_' + f[2]
                fired[k] = fired.get(k, 0) + 1
                if f[0] == 'diskerr' and len(f) > 1 and f[1] in ('write', 'ropen', 'close'):
                    k2 = 'diskerr_' + {'write': 'short_write', 'ropen': 'read', 'close': 'at_close'}[f[1]]
                    fired[k2] = fired.get(k2, 0) + 1
        stats = dict(j.stats)
        stats['fired'] = fired
        stats['procs'] = len(scn['procs'])
        stats['sim_clock_s'] = sum((o['clock'][1] - o['clock'][0]) for o in obs if isinstance(o.get('clock'), list))
        stats['hs'] = sorted({p.get('hs', 0) for p in scn['procs'] if not p.get('parent')})
        return j.discs, stats, j.abstract_states

    def size(self, scn):
        return sum(len(p['ops']) for p in scn['procs'])

    def canon_obs(self, scn, obs):
        # Chain.force(recompute=True) iterates a set of task objects (address order): the order of the runs inside such an
        # operation is not constrained by any property -> compared as a sorted multiset without run ids / clock readings
        setops = {op['i'] for p in scn['procs'] for op in p['ops'] if op['op'] in ('cforce', 'mforce') and (op.get('recompute') or op.get('delete'))}
        failing = {op['i'] for p in scn['procs'] for op in p['ops'] if op['op'] == 'cforce' and op.get('fault_expected')}
        out = []
        tainted_after = None
        for o in obs:
            if o.get('i') in setops:
                o = dict(o)
                o['inv'] = sorted([r['task'], r.get('key'), r.get('h')] for r in o.get('inv', []))
                o['fs'] = sorted(set(map(str, o.get('fs', []))))   # set: pathlib retries mkdir when a parent is missing
                if o['i'] in failing:
                    # a task downstream of the failing one may or may not have been reached (its directory made, its log opened)
                    # before the failure, depending on that order: only what ran is compared
                    o.pop('fs', None)
                o.pop('clock', None)
                tainted_after = o['i']
            elif tainted_after is not None:
                # run ids and clock ticks after a set-ordered recompute depend on that order only in their numbering
                o = _strip_numbering(o)
            out.append(o)
        return out

    def sample(self, scn, obs):
        return {'classes': [[c['slug'], c['kind'], c['style']] for c in scn['world']['classes']],
                'procs': [[{k: v for k, v in op.items() if k not in ('render',)} for op in p['ops']] for p in scn['procs']]}

    def shrink_candidates(self, scn):
        procs = scn['procs']
        migrating = any(op['op'] == 'migrate' for p in procs for op in p['ops'])
        # drop a whole process
        for pi in range(len(procs)):
            if len(procs) > 1:
                c = copy.deepcopy(scn)
                del c['procs'][pi]
                yield c
        # drop single ops (never the build a later op depends on: ops on unknown chains execute as no-ops)
        for pi in range(len(procs)):
            for oi in range(len(procs[pi]['ops']) - 1, -1, -1):
                c = copy.deepcopy(scn)
                del c['procs'][pi]['ops'][oi]
                yield c
        # simplify ops
        for pi in range(len(procs)):
            for oi, op in enumerate(procs[pi]['ops']):
                if op.get('crash'):
                    cr = op['crash']
                    if cr.get('when') in ('after', 'interrupt'):
                        c = copy.deepcopy(scn)
                        c['procs'][pi]['ops'][oi]['crash'].pop('when')
                        yield c
                    if cr.get('tear') is not None:
                        c = copy.deepcopy(scn)
                        c['procs'][pi]['ops'][oi]['crash']['tear'] = None
                        yield c
                    if cr['k'] > 0:
                        for nk in sorted({0, cr['k'] // 2, cr['k'] - 1}):
                            c = copy.deepcopy(scn)
                            c['procs'][pi]['ops'][oi]['crash']['k'] = nk
                            yield c
                if op.get('render') and op['render'] != {'form': 'mem'}:
                    if not migrating:      # (migration is defined for file-based configurations only: their rendering stays a file)
                        c = copy.deepcopy(scn)
                        c['procs'][pi]['ops'][oi]['render'] = {'form': 'mem'}
                        yield c
                    for k in list(op['render']):
                        if k != 'form':
                            c = copy.deepcopy(scn)
                            del c['procs'][pi]['ops'][oi]['render'][k]
                            yield c
                if op.get('task') != op.get('name') and 'name' in op:
                    c = copy.deepcopy(scn)
                    c['procs'][pi]['ops'][oi]['task'] = op['name']
                    yield c
            if procs[pi].get('hs', 0) != 0:
                c = copy.deepcopy(scn)
                c['procs'][pi]['hs'] = 0
                yield c
        # world simplifications that keep every reference valid
        w = scn['world']
        for ci, cl in enumerate(w['classes']):
            if cl.get('nlog'):
                c = copy.deepcopy(scn)
                c['world']['classes'][ci]['nlog'] = 0
                yield c
            for pi_, p in enumerate(cl['params']):
                if p.get('ignore') or p.get('nic') or p.get('dpd'):
                    c = copy.deepcopy(scn)
                    q = c['world']['classes'][ci]['params'][pi_]
                    if q.get('nic'):
                        old = q['nic']
                        q['nic'] = None
                        for cf in c['world']['configs']:
                            if old in cf['values']:
                                cf['values'][q['name']] = cf['values'].pop(old)
                        for rt in c['world']['roots']:
                            ov = rt.get('overrides') or {}
                            if old in ov.get('global', {}):
                                ov['global'][q['name']] = ov['global'].pop(old)
                            for d in ov.get('for_ns', {}).values():
                                if old in d:
                                    d[q['name']] = d.pop(old)
                        yield c
            if cl['kind'] not in ('int',) and not any(True for _ in ()):
                pass
        for ri, rt in enumerate(w['roots']):
            if rt.get('overrides'):
                c = copy.deepcopy(scn)
                c['world']['roots'][ri]['overrides'] = None
                yield c


StoreEngine.GENERATORS.update({'c05': scen.gen_c05, 'c04': scen.gen_c04, 'c01': scen.gen_c01, 'c07': scen.gen_c07,
                              'c06': scen.gen_c06, 'c02': scen.gen_c02, 'c13': scen.gen_c13, 'c18': scen.gen_c18, 'c12': scen.gen_c12, 'c20': scen.gen_c20, 'c20crash': scen.gen_c20crash, 'c02zone': scen.gen_c02zone, 'c18zone': scen.gen_c18zone})
