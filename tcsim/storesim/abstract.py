"""Abstract (documented-semantics) view of a world: which task instances a root config denotes, their effective
parameter values, their inputs, their computation descriptor D and their expected value.

This is the oracle's ground truth.  It is derived from the documentation's rules (configs.md / chains.md / tasks.md):
  * a config declares tasks; `uses X as ns` mounts X (and everything X uses) under the composed namespace;
  * a task sees the values of the config that declares it, overridden by the context (global entries, then entries for
    its exact namespace), falling back to defaults;
  * inputs are resolved inside the declaring task's namespace;
  * "location is based only on inputs to the computation": persisted parameter values + recursively the input computations.
It never hashes anything the way taskchain does.
"""
from pathlib import PurePosixPath

from .. import values as V

NO_DEFAULT = '__REQUIRED__'


def join_ns(*parts):
    return '::'.join(p for p in parts if p) or None


def fullname(ns, slug):
    return f'{ns}::{slug}' if ns else slug


class Inst:
    __slots__ = ('fullname', 'ns', 'cls', 'cspec', 'cfg', 'params', 'persisted', 'inputs', 'reads', 'D', 'record', 'h',
                 'expected', 'kind', 'slug', 'rel_inputs', 'all_params', '_rel_ns')

    def __repr__(self):
        return f'<Inst {self.fullname} D={self.D[:8]}>'


def effective_values(world, cfg, ns, root):
    """values seen by tasks declared by config `cfg` mounted at namespace `ns` (relative to the root, no outer ns)."""
    vals = dict(cfg['values'])
    ov = root.get('overrides') or {}
    vals.update(ov.get('global', {}))
    if ns:
        vals.update(ov.get('for_ns', {}).get(ns, {}))
    return vals


def mounts(world, root):
    """list of (ns, cfg_index) in mounting order (depth first, as `uses` are listed), deduplicated."""
    out = []
    seen = set()

    def rec(ci, ns):
        if (ci, ns) in seen:
            return
        seen.add((ci, ns))
        out.append((ns, ci))
        cfg = world['configs'][ci]
        pipe = world['pipelines'][cfg['pipe']]
        for slot, fill in zip(pipe['slots'], cfg['fills']):
            rec(fill, join_ns(ns, slot['ns']))

    rec(root['cfg'], None)
    return out


def build_chain_model(world, root_index, outer_ns=None):
    """-> dict fullname -> Inst for the chain of root `root_index`, names prefixed by outer_ns if given."""
    root = world['roots'][root_index]
    classes = world['classes']
    insts = {}
    by_ns_cls = {}
    seen_pipe = {}
    for ns, ci in mounts(world, root):
        pk = (ns, world['configs'][ci]['pipe'])
        if seen_pipe.setdefault(pk, ci) != ci:
            # two configs declaring the same tasks in one namespace: a conflict (property C09, not claimed; DESIGN A3) -
            # such a scenario is outside the domain the oracle speaks about and must never be judged
            raise ValueError(f'scenario outside the oracle domain: pipeline {pk[1]} mounted at namespace {ns!r} through configs {seen_pipe[pk]} and {ci}')
        cfg = world['configs'][ci]
        vals = effective_values(world, cfg, ns, root)
        for cid in world['pipelines'][cfg['pipe']]['classes']:
            c = classes[cid]
            it = Inst()
            it.cls = cid
            it.cspec = c
            it.cfg = ci
            it.ns = join_ns(outer_ns, ns)
            it.slug = c['slug']
            it.kind = c['kind']
            it.fullname = fullname(it.ns, c['slug'])
            params = {}
            persisted = {}
            allp = {}
            for p in c['params']:
                key = p.get('nic') or p['name']
                if key in vals:
                    v = vals[key]
                elif p['default'] != NO_DEFAULT:
                    v = p['default']['v']
                else:
                    raise ValueError(f'world bug: required parameter {p["name"]} of {c["py"]} has no value in {cfg["name"]}')
                allp[p['name']] = v
                if p.get('ignore'):
                    continue
                if not p.get('placeholder'):
                    # a placeholder-bearing string reaches the task substituted, but is persisted in its placeholder form:
                    # by the property it has no influence on the result, so the provenance record leaves it out
                    params[p['name']] = v if not (p.get('dtype') == 'Path' and isinstance(v, str)) else str(PurePosixPath(v))
                if p.get('dpd') and p['default'] != NO_DEFAULT and _pyeq(v, p['default']['v']):
                    continue
                persisted[p['name']] = v
            it.params = params
            it.persisted = persisted
            it.all_params = allp
            insts[it.fullname] = it
            by_ns_cls[(ns, cid)] = it
            it._rel_ns = ns
    # inputs
    for it in insts.values():
        it.inputs = {}
        it.rel_inputs = []
        ns = it._rel_ns
        for inp in it.cspec['inputs']:
            if inp.get('optional') == 'absent':
                it.rel_inputs.append((inp, None))
                continue
            tns = join_ns(ns, inp.get('rel') or None)
            target = by_ns_cls.get((tns, inp['cls']))
            if target is None:
                raise ValueError(f'world bug: input {inp} of {it.fullname} not mounted at {tns}')
            relname = fullname(inp.get('rel') or None, classes[inp['cls']]['slug'])
            it.inputs[relname] = target
            it.rel_inputs.append((inp, target))
    # D, record, expected: bottom-up
    done = set()

    def fin(it):
        if it.fullname in done:
            return
        for t in it.inputs.values():
            fin(t)
        it.D = V.digest({'t': it.slug, 'p': _pcanon(it.persisted), 'i': {n: t.D for n, t in it.inputs.items()}})
        reads = {}
        for idx in it.cspec['reads']:
            inp, target = it.rel_inputs[idx]
            if target is None:
                continue
            relname = fullname(inp.get('rel') or None, world['classes'][inp['cls']]['slug'])
            reads[relname] = V.digest(target.expected)
        it.reads = reads
        it.record = {'t': it.slug, 'p': _pcanon(it.params), 'i': reads}
        it.h = V.digest(it.record)
        it.expected = V.canon_expected(it.kind, V.make_value(it.kind, it.h))
        done.add(it.fullname)

    for it in insts.values():
        fin(it)
    return insts


def _pyeq(a, b):
    return type(a) is type(b) and a == b


OBJ_DEFAULTS = {'PObj': {'b': 'x'}, 'PSub': {}, 'PDef': {'c': 1, 'd': None}, 'PSet': {}, 'POpt': {}, 'PCb': {'hooks': None}, 'PHook': {'every': 1}}
OBJ_IGNORED = {'PSub': ('b',)}


def canon_param(v):
    """canonical form of a parameter value: JSON-like, or a parameter-object definition {'class':..,'kwargs':..}.
    Two definitions denote the same object (hence the same computation) when they agree after filling constructor
    defaults; arguments ignored for persistence (verbose/debug) are not part of the computation."""
    if isinstance(v, dict) and 'class' in v:
        cname = v['class'].split('.')[-1]
        kw = dict(OBJ_DEFAULTS.get(cname, {}))
        kw.update(v.get('kwargs') or {})
        kw = {k: canon_param(mark_placeholders(x)) for k, x in kw.items() if k not in ('verbose', 'debug') and k not in OBJ_IGNORED.get(cname, ())}
        if cname == 'PSet':
            kw = {k: (sorted(x, key=repr) if isinstance(x, list) else x) for k, x in kw.items()}
        if cname == 'PCb':
            kw['hooks'] = _strip_hooks(kw.get('hooks'))
        return {'$obj': [cname, kw]}
    if isinstance(v, list):
        return [canon_param(x) for x in v]
    if isinstance(v, dict) and '$intkeys' in v:
        return {'$ik': sorted([k, canon_param(x)] for k, x in v['$intkeys'])}
    if isinstance(v, dict) and v and all(type(k) is int for k in v):
        return {'$ik': sorted([k, canon_param(x)] for k, x in v.items())}
    if isinstance(v, dict):
        return {'$d': {k: canon_param(x) for k, x in v.items()}}
    return V.canon_json(v)


_PH = __import__('re').compile(r'\{V[ABC]\}')


def mark_placeholders(x):
    """arguments of object definitions: a placeholder-bearing string reaches the object substituted but is represented in its
    placeholder form, so (like a placeholder-bearing parameter value) it is not part of the provenance record"""
    if isinstance(x, str) and (type(x) is not str or _PH.search(x)):
        return '$PH'
    if isinstance(x, list):
        return [mark_placeholders(y) for y in x]
    if isinstance(x, dict):
        return {k: mark_placeholders(y) for k, y in x.items()}
    return x


def _strip_hooks(c):
    """canonical container without the helper objects that are ignored for persistence (at any depth)"""
    def hook(x):
        return isinstance(x, dict) and '$obj' in x and x['$obj'][0] == 'PHook'
    if isinstance(c, list):
        return [_strip_hooks(x) for x in c if not hook(x)]
    if isinstance(c, dict) and '$d' in c:
        return {'$d': {k: _strip_hooks(x) for k, x in c['$d'].items() if not hook(x)}}
    return c


def decode_value(v):
    """scenario (JSON) form of a parameter value -> the python value handed to taskchain"""
    if isinstance(v, dict) and '$intkeys' in v:
        return {k: decode_value(x) for k, x in v['$intkeys']}
    if isinstance(v, dict):
        return {k: decode_value(x) for k, x in v.items()}
    if isinstance(v, list):
        return [decode_value(x) for x in v]
    return v


def _pcanon(params):
    return {k: canon_param(v) for k, v in params.items()}


def descendants(insts, names):
    """fullnames of `names` and everything downstream of them."""
    rev = {n: set() for n in insts}
    for it in insts.values():
        for t in it.inputs.values():
            rev[t.fullname].add(it.fullname)
    out = set()
    work = list(names)
    while work:
        n = work.pop()
        if n in out:
            continue
        out.add(n)
        work.extend(rev[n])
    return out
