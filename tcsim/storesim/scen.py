"""Scenario (history) generators for storesim.  A scenario = world + list of simulated processes, each a list of ops.
All randomness comes from the random.Random given; the scenario that results is plain JSON and is the replay file."""
import copy
from . import abstract as A
from . import gen
from .. import values as V

PERSISTED_KINDS = list(V.JSON_KINDS) + ['ndarray', 'frame', 'series', 'gen', 'dir', 'listnp', 'genlazy', 'cont']
RUN_FAULTS = ['raise_start', 'raise_after_inputs', 'raise_before_return', 'mistyped', 'unserializable', 'gen_raise']
TEARS = [None, {'abs': 0}, {'abs': 1}, {'frac': 0.5}, {'abs': -1}, {'frac': 0.25}, {'frac': 0.9}, {'abs': 7}]


class B:
    """scenario builder"""

    def __init__(self, world, r):
        self.world = world
        self.r = r
        self.procs = []
        self.cur = None
        self.n = 0
        self.cids = 0
        self.models = {}
        self.chain_info = {}

    def model(self, root, outer=None):
        k = (root, outer)
        if k not in self.models:
            self.models[k] = A.build_chain_model(self.world, root, outer)
        return self.models[k]

    def proc(self, hs=0, **kw):
        self.cur = dict(hs=hs, ops=[], **kw)
        self.procs.append(self.cur)
        return self.cur

    def op(self, **d):
        d['i'] = self.n
        self.n += 1
        self.cur['ops'].append(d)
        return d

    def render(self, rich=True, **force):
        r = self.r
        rd = {'form': r.choice(['mem', 'mem', 'json', 'yaml'])}
        if rich:
            if r.random() < 0.5:
                rd['perm'] = r.randint(1, 1000)
            if r.random() < 0.3:
                rd['spell_defaults'] = True
            if r.random() < 0.25:
                rd['outer_ns'] = r.choice(['oa', 'ob'])
            if r.random() < 0.3:
                rd['name_suffix'] = r.choice(['_v2', '_x', 'Z'])
            if rd['form'] != 'mem':
                rd['file_tag'] = r.choice(['t0', 't1', 'deep/dir'])
                rd['ctx_form'] = r.choice(['dict', 'file', 'list'])
                if r.random() < 0.2:
                    rd['uses_placeholder'] = True
            if rd['form'] == 'mem':
                rd['tasks_form'] = r.choice(['class', 'string', 'wildcard'])
            elif r.random() < 0.3:
                rd['tasks_form'] = 'wildcard'
        rd.update(force)
        return rd

    def build(self, root, render=None, pmode=True):
        cid = f'c{self.cids}'
        self.cids += 1
        render = render if render is not None else self.render()
        self.op(op='build', cid=cid, root=root, render=render, pmode=pmode)
        self.chain_info[cid] = (root, render.get('outer_ns'))
        return cid

    def names(self, cid):
        root, outer = self.chain_info[cid]
        return list(self.model(root, outer))

    def insts(self, cid):
        root, outer = self.chain_info[cid]
        return self.model(root, outer)

    def req(self, cid, name, **kw):
        form = name
        it = self.insts(cid)[name]
        if ':' in it.slug and self.r.random() < 0.2:
            # address without group (unique: task names are globally unique)
            form = A.fullname(it.ns, it.cspec['name'])
        return self.op(op='req', cid=cid, task=form, name=name, **kw)

    def scenario(self, **meta):
        return dict(engine='storesim', world=self.world, procs=self.procs, **meta)


def _pick_crash(r, scale):
    k = r.randint(0, scale)
    return {'k': k, 'tear': copy.deepcopy(r.choice(TEARS))}


def gen_c05(r, knobs=None):
    """fault histories: run faults, crashes (with torn last write), disk errors; first computation and forced recomputation."""
    kn = {'kinds': PERSISTED_KINDS, 'n_pipes': (1, 3), 'classes_per_pipe': (1, 3), 'n_roots': (1, 2)}
    kn.update(knobs or {})
    world = gen.gen_world(r, kn)
    b = B(world, r)
    root = r.randrange(len(world['roots']))
    swarm = {'crash': r.random() < 0.75, 'runfault': r.random() < 0.6, 'diskerr': r.random() < 0.25, 'forced': r.random() < 0.5}
    if not any(swarm[k] for k in ('crash', 'runfault', 'diskerr')):
        swarm['crash'] = True
    nproc = r.randint(2, 4)
    hs_pool = [0, 1, 2]
    for pi in range(nproc):
        b.proc(hs=r.choice(hs_pool))
        cid = b.build(root, b.render(rich=r.random() < 0.5))
        names = b.names(cid)
        if pi > 0:
            b.op(op='insp', cid=cid, kind='has_data')
        last = pi == nproc - 1
        nops = r.randint(1, 4)
        died = False
        for _ in range(nops):
            name = r.choice(names)
            t = r.random()
            if swarm['forced'] and t < 0.3:
                if r.random() < 0.5:
                    b.op(op='tforce', cid=cid, task=name, name=name, delete=r.random() < 0.2)
                else:
                    b.op(op='cforce', cid=cid, tasks=[name], names=[name], recompute=False, delete=r.random() < 0.2)
            fault_kind = None
            if not last:
                cands = [k for k in ('crash', 'runfault', 'diskerr') if swarm[k]]
                if cands and r.random() < 0.6:
                    fault_kind = r.choice(cands)
            if fault_kind == 'runfault':
                # arm a fault on the task itself or on something upstream of it
                insts = b.insts(cid)
                ups = [name] + sorted(_upstream_names(insts[name]))
                victim = insts[r.choice(ups)]
                kind = r.choice(RUN_FAULTS)
                b.op(op='armrun', slug=victim.slug, kind=kind, at=r.choice([0, 1, 3]))
                b.req(cid, name)
                b.op(op='insp', cid=cid, kind='has_data')
                b.req(cid, name)         # retry in the same process: must recover
                b.op(op='disarm')
            elif fault_kind == 'crash':
                n_up = 1 + len(_upstream_names(b.insts(cid)[name]))
                b.req(cid, name, crash=_pick_crash(r, 9 * min(n_up, 3)))
                died = True
                break
            elif fault_kind == 'diskerr':
                n_up = 1 + len(_upstream_names(b.insts(cid)[name]))
                b.req(cid, name, diskerr={'k': r.randint(0, 8 * min(n_up, 3)), 'errno': r.choice(['ENOSPC', 'EIO', 'EACCES'])})
                b.op(op='insp', cid=cid, kind='has_data')
                break
            else:
                b.req(cid, name)
        if last or (not died and r.random() < 0.5):
            # observation sweep: everything visible must load, everything requested must recover
            b.op(op='insp', cid=cid, kind='has_data')
            order = list(names)
            r.shuffle(order)
            for n in order:
                b.req(cid, n)
            b.op(op='insp', cid=cid, kind='has_data')
    return b.scenario(swarm=swarm)


def _upstream_names(it):
    out = set()
    work = list(it.inputs.values())
    while work:
        t = work.pop()
        if t.fullname in out:
            continue
        out.add(t.fullname)
        work.extend(t.inputs.values())
    return out
