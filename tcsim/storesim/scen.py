"""Scenario (history) generators for storesim.  A scenario = world + list of simulated processes, each a list of ops.
All randomness comes from the random.Random given; the scenario that results is plain JSON and is the replay file."""
import copy
import random
from . import abstract as A
from . import gen
from .. import values as V

PERSISTED_KINDS = list(V.JSON_KINDS) + ['ndarray', 'frame', 'series', 'gen', 'dir', 'listnp', 'genlazy', 'cont']
RUN_FAULTS = ['raise_start', 'raise_after_inputs', 'raise_before_return', 'mistyped', 'unserializable', 'gen_raise']
TEARS = [None, {'abs': 0}, {'abs': 1}, {'frac': 0.5}, {'abs': -1}, {'frac': 0.25}, {'frac': 0.9}, {'abs': 7}]


class B:
    """scenario builder"""

    def __init__(self, world, r):
        self.world = world
        self.r = r
        self.procs = []
        self.cur = None
        self.n = 0
        self.cids = 0
        self.models = {}
        self.chain_info = {}
        # revisions of external resources run bodies read (what users force for): decided by a PRNG of its own, so that
        # histories without them are the ones the main PRNG always produced
        self.rr = random.Random('rev:' + V.digest(world))
        self.revs = {}
        self.use_rev = False

    def model(self, root, outer=None):
        k = (root, outer)
        if k not in self.models:
            self.models[k] = A.build_chain_model(self.world, root, outer)
        return self.models[k]

    def proc(self, hs=0, **kw):
        self.cur = dict(hs=hs, ops=[], **kw)
        self.procs.append(self.cur)
        if self.revs:
            self.op(op='rev', map=dict(self.revs))
        return self.cur

    def overlap(self, root, render, max_reqs=4):
        """while the current simulated process stays alive (parked), another process builds a chain over the same store, computes part
        of it and ends; the current process then goes on with what it holds in memory and finds on disk"""
        a = self.cur
        k = self.n
        self.op(op='wait', k=k, run=f'n{k}')
        self.proc(hs=(a.get('hs', 0) + 1 + self.rr.randrange(2)) % 3, nested=True, id=f'n{k}')
        cid = self.build(root, render)
        names = self.names(cid)
        for n in self.rr.sample(names, min(len(names), self.rr.randint(1, max_reqs))):
            self.req(cid, n)
        self.cur = a
        return cid

    def bump(self, cid, names, p=0.5):
        """the external resource read by (some of) these tasks changes: what is stored stays what it is until somebody forces"""
        if not self.use_rev or self.rr.random() >= p:
            return
        insts = self.insts(cid)
        hit = False
        for n in names:
            if self.rr.random() < 0.7:
                s_ = insts[n].slug
                self.revs[s_] = self.revs.get(s_, 0) + 1
                hit = True
        if hit:
            self.op(op='rev', map=dict(self.revs))

    def op(self, **d):
        d['i'] = self.n
        self.n += 1
        self.cur['ops'].append(d)
        return d

    def render(self, rich=True, **force):
        r = self.r
        rd = {'form': r.choice(['mem', 'mem', 'json', 'yaml', 'multi_json', 'multi_yaml'])}
        if self.world.get('no_json') and rd['form'] in ('json', 'multi_json'):
            rd['form'] = 'yaml' if rd['form'] == 'json' else 'multi_yaml'
        if rd['form'].startswith('multi') and r.random() < 0.4:
            rd['main_part'] = False
        if rich:
            if r.random() < 0.5:
                rd['perm'] = r.randint(1, 1000)
            if r.random() < 0.3:
                rd['spell_defaults'] = True
            if r.random() < 0.25:
                rd['outer_ns'] = r.choice(['oa', 'ob'])
            if r.random() < 0.3:
                rd['name_suffix'] = r.choice(['_v2', '_x', 'Z'])
            if rd['form'] != 'mem':
                rd['file_tag'] = r.choice(['t0', 't1', 'deep/dir'])
                rd['ctx_form'] = r.choice(['dict', 'file', 'list', 'uses'])
                if r.random() < 0.2:
                    rd['uses_placeholder'] = True
            if rd['form'] == 'mem':
                rd['tasks_form'] = r.choice(['class', 'string', 'wildcard'])
            elif r.random() < 0.3:
                rd['tasks_form'] = 'wildcard'
        rd.update(force)
        return rd

    def build(self, root, render=None, pmode=True, store=None, registry=None):
        cid = f'c{self.cids}'
        self.cids += 1
        render = render if render is not None else self.render()
        if registry:
            render = dict(render)
            render['name_suffix'] = f'_r{self.cids}'
        # name-mode chains live in their own data directory: readable links of a parameter-mode chain are named after
        # the config, i.e. exactly like name-mode result files
        store = store or ('main' if pmode else 'namemode')
        if registry:
            self.op(op='build', cid=cid, root=root, render=render, pmode=pmode, store=store, registry=registry)
        else:
            self.op(op='build', cid=cid, root=root, render=render, pmode=pmode, store=store)
        self.chain_info[cid] = (root, render.get('outer_ns'))
        return cid

    def names(self, cid):
        root, outer = self.chain_info[cid]
        return list(self.model(root, outer))

    def insts(self, cid):
        root, outer = self.chain_info[cid]
        return self.model(root, outer)

    def req(self, cid, name, **kw):
        form = name
        it = self.insts(cid)[name]
        if ':' in it.slug and self.r.random() < 0.2:
            # address without group (unique: task names are globally unique)
            form = A.fullname(it.ns, it.cspec['name'])
        if 'via' not in kw and self.r.random() < 0.25:
            kw['via'] = self.r.choice(['attr', 'get', 'tasks'])
        return self.op(op='req', cid=cid, task=form, name=name, **kw)

    def new_proc_reset(self):
        self.live_all = []

    def closure(self, cid, names):
        """names + everything downstream, over computations (tasks that are one computation are one node)"""
        insts = self.insts(cid)
        ds = {insts[n].D for n in names}
        changed = True
        while changed:
            changed = False
            for it in insts.values():
                if it.D not in ds and any(t.D in ds for t in it.inputs.values()):
                    ds.add(it.D)
                    changed = True
        return [n for n, it in insts.items() if it.D in ds]

    def pick_force_names(self, cid, kmax=3):
        """names to force: often the same task under two namespaces of the chain (mountings of one pipeline)"""
        r = self.r
        insts = self.insts(cid)
        names = list(insts)
        by = {}
        for n, it in insts.items():
            by.setdefault(it.slug, []).append(n)
        sib = [v for v in by.values() if len(v) >= 2]
        if sib and r.random() < 0.5:
            g = r.choice(sib)
            return r.sample(g, min(len(g), r.choice([2, 2, 3])))
        return r.sample(names, min(len(names), r.choice(list(range(1, kmax + 1)))))

    def delete_ok(self, cid, names, live):
        """delete_data is generated only when no other live chain of this process may hold a *reference* value
        (directory path, lazy reader) of a result that would be deleted: such a reference dies with the data, and what
        a chain then computes from it is outside every listed property."""
        insts = self.insts(cid)
        doomed = {(insts[n].slug, insts[n].D) for n in self.closure(cid, names) if insts[n].kind in ('dir', 'cont', 'genlazy')}
        if not doomed:
            return True
        for other in live:
            if other == cid:
                continue
            for it in self.insts(other).values():
                if (it.slug, it.D) in doomed:
                    return False
        return True

    def scenario(self, **meta):
        return dict(engine='storesim', world=self.world, procs=self.procs, **meta)


def _pick_crash(r, scale):
    k = r.randint(0, scale)
    c = {'k': k, 'tear': copy.deepcopy(r.choice(TEARS))}
    t = r.random()
    if t < 0.3:
        c['when'] = 'after'      # the process dies right after that operation instead of right before it
        c['tear'] = None
    elif t < 0.42:
        c['when'] = 'interrupt'  # the process is interrupted by an exception that unwinds the stack, then ends
        c['tear'] = None
        if r.random() < 0.5:
            # if operation k opens a file for writing, the interrupt arrives inside a write, after that many units
            c['wlimit'] = r.choice([0, 1, 9, 60, 400])
    return c


def gen_c05(r, knobs=None):
    """fault histories: run faults, crashes (with torn last write), disk errors; first computation and forced recomputation."""
    kn = {'kinds': PERSISTED_KINDS, 'n_pipes': (1, 3), 'classes_per_pipe': (1, 3), 'n_roots': (1, 2)}
    kn.update(knobs or {})
    world = gen.gen_world(r, kn)
    b = B(world, r)
    root = r.randrange(len(world['roots']))
    swarm = {'crash': r.random() < 0.75, 'runfault': r.random() < 0.6, 'diskerr': r.random() < 0.25, 'forced': r.random() < 0.5}
    if not any(swarm[k] for k in ('crash', 'runfault', 'diskerr')):
        swarm['crash'] = True
    nproc = r.randint(2, 4)
    hs_pool = [0, 1, 2]
    for pi in range(nproc):
        b.proc(hs=r.choice(hs_pool))
        cid = b.build(root, b.render(rich=r.random() < 0.5))
        names = b.names(cid)
        if pi > 0:
            b.op(op='insp', cid=cid, kind='has_data')
        last = pi == nproc - 1
        nops = r.randint(1, 4)
        died = False
        for _ in range(nops):
            name = r.choice(names)
            t = r.random()
            if swarm['forced'] and t < 0.3:
                if r.random() < 0.5:
                    b.op(op='tforce', cid=cid, task=name, name=name, delete=r.random() < 0.2)
                else:
                    b.op(op='cforce', cid=cid, tasks=[name], names=[name], recompute=False, delete=r.random() < 0.2)
                # (one live chain per process in this profile: no other holder of reference values)
            fault_kind = None
            if not last:
                cands = [k for k in ('crash', 'runfault', 'diskerr') if swarm[k]]
                if cands and r.random() < 0.6:
                    fault_kind = r.choice(cands)
            if fault_kind == 'runfault':
                # arm a fault on the task itself or on something upstream of it
                insts = b.insts(cid)
                ups = [name] + sorted(_upstream_names(insts[name]))
                victim = insts[r.choice(ups)]
                kind = r.choice(RUN_FAULTS)
                b.op(op='armrun', slug=victim.slug, kind=kind, at=r.choice([0, 1, 3]))
                b.req(cid, name)
                if r.random() < 0.3:
                    # fails twice in a row
                    b.op(op='armrun', slug=victim.slug, kind=r.choice(RUN_FAULTS), at=r.choice([0, 1]))
                    b.req(cid, name)
                b.op(op='insp', cid=cid, kind='has_data')
                b.op(op='ls', store='main', expect='error_dirs')
                b.req(cid, name)         # retry in the same process: must recover
                b.op(op='disarm')
            elif fault_kind == 'crash':
                n_up = 1 + len(_upstream_names(b.insts(cid)[name]))
                b.req(cid, name, crash=_pick_crash(r, 9 * min(n_up, 3)))
                died = True
                break
            elif fault_kind == 'diskerr':
                n_up = 1 + len(_upstream_names(b.insts(cid)[name]))
                if r.random() < 0.3:
                    # transient error while a stored file is opened for reading (the result may be loaded from storage)
                    b.req(cid, name, diskerr={'k': r.randint(0, 2), 'errno': r.choice(['EMFILE', 'EIO']), 'read': True})
                else:
                    de = {'k': r.randint(0, 8 * min(n_up, 3)), 'errno': r.choice(['ENOSPC', 'EIO', 'EACCES'])}
                    if r.random() < 0.5:
                        # when operation k opens a file for writing, the open succeeds and a WRITE fails after that many units
                        # (disk full / I/O error in the middle of the file: a short write, then the error)
                        de['wlimit'] = r.choice([0, 0, 1, 9, 60, 400, 5000])
                        de['errno'] = r.choice(['ENOSPC', 'EIO'])
                        if r.random() < 0.35:
                            # the data sits in the buffer and the error surfaces only when the file is flushed / closed
                            de['at_close'] = True
                    b.req(cid, name, diskerr=de)
                b.req(cid, name)        # the error was transient: the same request has to recover
                b.op(op='insp', cid=cid, kind='has_data')
                break
            else:
                b.req(cid, name)
        if last or (not died and r.random() < 0.5):
            # observation sweep: everything visible must load, everything requested must recover
            b.op(op='insp', cid=cid, kind='has_data')
            order = list(names)
            r.shuffle(order)
            for n in order:
                b.req(cid, n)
            b.op(op='insp', cid=cid, kind='has_data')
    return b.scenario(swarm=swarm)


def _upstream_names(it):
    out = set()
    work = list(it.inputs.values())
    while work:
        t = work.pop()
        if t.fullname in out:
            continue
        out.add(t.fullname)
        work.extend(t.inputs.values())
    return out


# ---------------------------------------------------------------------------------------------------------------
INSPECT_KINDS = ['has_data', 'data_path', 'run_info', 'log', 'tasks_df', 'links', 'repr', 'flags']


def _equiv_render(b, root, base=None):
    """a computation-preserving rewriting of the configuration of `root` (C02's quantifier)"""
    r = b.r
    rd = b.render(rich=True)
    world = b.world
    rt = world['roots'][root]
    # move values from configs into the context (global: only if every mounting of that key agrees; else per namespace)
    if r.random() < 0.4:
        ms = A.mounts(world, rt)
        ov = rt.get('overrides') or {}
        moves = []
        for ns, ci in ms:
            cfg = world['configs'][ci]
            for key in cfg['values']:
                if r.random() < 0.3:
                    if key in ov.get('global', {}) or any(key in d for d in ov.get('for_ns', {}).values()):
                        continue
                    same_everywhere = all(world['configs'][cj]['values'].get(key, cfg['values'][key]) == cfg['values'][key] and
                                          (key in world['configs'][cj]['values'] or not _declares(world, cj, key))
                                          for _, cj in ms)
                    if same_everywhere and r.random() < 0.5:
                        moves.append({'cfg': ci, 'key': key, 'to': 'global', 'ns': None})
                    elif ns and _ns_unique_cfg(world, ms, ns, key, ci):
                        moves.append({'cfg': ci, 'key': key, 'to': 'ns', 'ns': ns})
        if moves:
            # a config reached under several namespaces can only move a key if it moves for all of its mountings
            ok = []
            for mv in moves:
                mounts_of = [ns for ns, cj in ms if cj == mv['cfg']]
                if mv['to'] == 'global' or len(mounts_of) == 1:
                    ok.append(mv)
            rd['moves'] = ok
            rd['force_ctx'] = True
    if r.random() < 0.4:
        rd['ignored_values'] = {}
        for c in world['classes']:
            for p in c['params']:
                if p.get('ignore') and r.random() < 0.7:
                    rd['ignored_values'][p.get('nic') or p['name']] = r.choice(p['pool'])
    if r.random() < 0.5:
        rd['obj_var'] = r.randint(1, 10**6)
    if r.random() < 0.5:
        rd['global_vars'] = {'VA': r.choice(['/data', 'alpha', '', '{VB}/nested', '{VC}x']), 'VB': r.choice(['beta', '/x/y', '7'])}
        if r.random() < 0.3:
            rd['global_vars']['VC'] = 'gamma'
    return rd


def _declares(world, cj, key):
    cfg = world['configs'][cj]
    for cid in world['pipelines'][cfg['pipe']]['classes']:
        for p in world['classes'][cid]['params']:
            if (p.get('nic') or p['name']) == key:
                return True
    return False


def _ns_unique_cfg(world, ms, ns, key, ci):
    """for_namespaces[ns] applies to every config mounted at exactly ns: safe if no other config there declares the key"""
    return all(cj == ci or not _declares(world, cj, key) for n2, cj in ms if n2 == ns)


def _inspect(b, cid, kinds=None):
    r = b.r
    k = r.choice(kinds or INSPECT_KINDS)
    d = dict(op='insp', cid=cid, kind=k)
    if k == 'links':
        d['name'] = r.choice([None, 'nice', 'nice2'])
        d['keep'] = r.random() < 0.3
    b.op(**d)


def gen_c04(r, knobs=None):
    """fault-free, force-free histories: constructions, requests, inspections, restarts; several roots sharing sub-pipelines."""
    kn = {'n_roots': (1, 4), 'n_pipes': (1, 4)}
    kn.update(knobs or {})
    world = gen.gen_world(r, kn)
    b = B(world, r)
    nproc = r.randint(1, 4)
    shared_reg = r.random() < 0.3      # chains of a process built over one shared task registry (as MultiChain does)
    overlap_on = b.rr.random() < 0.4
    for pi in range(nproc):
        b.proc(hs=r.choice([0, 0, 1, 2]))
        live = []
        for _ in range(r.randint(2, 12)):
            t = r.random()
            if live and overlap_on and b.rr.random() < 0.15:
                # another process computes on the same store while this one is alive (a session left open, a batch job alongside)
                b.overlap(b.chain_info[b.rr.choice(live)][0], {'form': 'mem'})
            if not live or t < 0.2:
                root = r.randrange(len(world['roots']))
                rt = world['roots'][root]
                pmode = True
                rd = _equiv_render(b, root)
                if not rt.get('overrides') and r.random() < 0.15:
                    # name mode under its documented contract (DESIGN.md A4): fixed config names, no context
                    pmode = False
                    rd = {'form': r.choice(['mem', 'json'] if not world.get('no_json') else ['mem', 'yaml']), 'perm': r.choice([0, 5])}
                reg = 'R0' if pmode and shared_reg and r.random() < 0.6 else None
                if reg:
                    rd.pop('outer_ns', None)
                live.append(b.build(root, rd, pmode=pmode, registry=reg))
            elif t < 0.7:
                cid = r.choice(live)
                b.req(cid, r.choice(b.names(cid)))
            elif t < 0.95:
                _inspect(b, r.choice(live))
            else:
                cid = live.pop(r.randrange(len(live)))
                b.op(op='drop', cid=cid)
    return b.scenario()


def gen_c01(r, knobs=None):
    """histories over one store with different roots/contexts/namespace mountings, forcing, run failures, restarts,
    MultiChains - no crashes (those are C05's)."""
    kn = {'n_roots': (2, 4), 'n_pipes': (1, 4), 'p_override': 0.6, 'p_twin': 0.35}
    kn.update(knobs or {})
    world = gen.gen_world(r, kn)
    b = B(world, r)
    nproc = r.randint(1, 4)
    swarm = {'force': r.random() < 0.5, 'runfault': r.random() < 0.4, 'multi': r.random() < 0.3}
    b.use_rev = swarm['force'] and b.rr.random() < 0.4
    for pi in range(nproc):
        b.proc(hs=r.choice([0, 1, 2]))
        live = []
        for _ in range(r.randint(3, 12)):
            t = r.random()
            if not live or t < 0.22:
                root = r.randrange(len(world['roots']))
                live.append(b.build(root, _equiv_render(b, root)))
            elif t < 0.3 and swarm['multi'] and len(world['roots']) >= 2:
                live += _mbuild(b, r)
            elif t < 0.75:
                cid = r.choice(live)
                name = r.choice(b.names(cid))
                if swarm['runfault'] and r.random() < 0.25:
                    insts = b.insts(cid)
                    ups = [name] + sorted(_upstream_names(insts[name]))
                    b.op(op='armrun', slug=insts[r.choice(ups)].slug, kind=r.choice(RUN_FAULTS), at=r.choice([0, 1, 3]))
                    b.req(cid, name)
                    b.op(op='disarm')
                b.req(cid, name)
            elif t < 0.85 and swarm['force']:
                cid = r.choice(live)
                names = b.names(cid)
                if r.random() < 0.5:
                    n = r.choice(names)
                    b.bump(cid, [n], 0.5)
                    b.op(op='tforce', cid=cid, task=n, name=n, delete=r.random() < 0.3 and b.delete_ok(cid, [n], live))
                else:
                    ns = r.sample(names, min(len(names), r.randint(1, 2)))
                    b.bump(cid, ns, 0.5)
                    b.op(op='cforce', cid=cid, tasks=ns, names=ns, recompute=r.random() < 0.3, delete=r.random() < 0.3 and b.delete_ok(cid, ns, live))
            elif t < 0.95:
                _inspect(b, r.choice(live), ['has_data', 'data_path', 'flags', 'tasks_df'])
            else:
                cid = live.pop(r.randrange(len(live)))
                b.op(op='drop', cid=cid)
    return b.scenario(swarm=swarm)


def _mbuild(b, r):
    world = b.world
    k = r.randint(2, min(4, max(2, len(world['roots']))))
    roots = [r.randrange(len(world['roots'])) for _ in range(k)]
    mid = f'm{b.cids}'
    b.cids += 1
    members = []
    related = b.rr.random() < 0.35
    for j, root in enumerate(roots):
        rd = _equiv_render(b, root)
        rd['name_suffix'] = f'_m{j}'       # MultiChain requires distinct config names
        rd.pop('outer_ns', None) if r.random() < 0.7 else None
        if related and 'outer_ns' not in rd:
            # member configs whose names extend one another (model / model_v2 / model_v2_v2): distinct chains all the same
            rd['root_name'] = 'model' + '_v2' * j
            if rd['form'].startswith('multi'):
                rd['form'] = rd['form'][6:]
        members.append({'root': root, 'render': rd})
    b.op(op='mbuild', mid=mid, members=members)
    cids = []
    for j, m in enumerate(members):
        cid = f'{mid}/{j}'
        b.chain_info[cid] = (m['root'], m['render'].get('outer_ns'))
        cids.append(cid)
    b.multi_members = getattr(b, 'multi_members', {})
    b.multi_members[mid] = cids
    return cids


def _is_path(insts, names):
    """do the computations behind `names` form one simple dependency path (each at most one direct input and one direct
    consumer inside the set, connected, at least two of them)?"""
    ds = {}
    for n in names:
        ds.setdefault(insts[n].D, insts[n])
    if len(ds) < 2 or len({it.slug for it in ds.values()}) != len(ds):
        return False
    for it in ds.values():
        # run-argument style only (inputs are resolved before `run` starts), and the input inside the set is one `run` takes
        if it.cspec['style'] != 'args':
            return False
        for idx, (inp, target) in enumerate(it.rel_inputs):
            if target is not None and target.D in ds and idx not in it.cspec['reads']:
                return False
    ups = {d: {t.D for t in it.inputs.values() if t.D in ds} for d, it in ds.items()}
    downs = {d: {e for e in ds if d in ups[e]} for d in ds}
    if any(len(u) > 1 for u in ups.values()) or any(len(x) > 1 for x in downs.values()):
        return False
    return sum(1 for u in ups.values() if not u) == 1


def gen_c07(r, knobs=None):
    """force-heavy histories: Task.force / Chain.force with every flag combination on arbitrary task sets, stores with
    results present or missing, arbitrary later request orders, other chains and processes on the same store."""
    kn = {'n_roots': (2, 3), 'n_pipes': (1, 4), 'classes_per_pipe': (1, 4), 'p_twin': 0.45}
    kn.update(knobs or {})
    world = gen.gen_world(r, kn)
    b = B(world, r)
    nproc = r.randint(1, 3)
    # name mode (A4): no context; and - for set-driven recompute, whose order is arbitrary - no config mounted twice
    # (two task objects on one name-mode location would make the set of runs depend on that order)
    faulty = r.random() < 0.3      # some force histories also contain failing runs (recompute is then never combined with them)
    plain_roots = [i for i, rt in enumerate(world['roots']) if not rt.get('overrides') and
                   len({(it.slug, it.cfg) for it in b.model(i).values()}) == len(b.model(i))]
    name_mode = bool(plain_roots) and r.random() < 0.25
    b.use_rev = not faulty and b.rr.random() < 0.5
    for pi in range(nproc):
        b.proc(hs=r.choice([0, 1]))
        root = r.randrange(len(world['roots']))
        if not name_mode and len(world['roots']) >= 2 and r.random() < 0.4:
            # the chains of this process are members of a MultiChain (shared task objects under Chain.force)
            live = _mbuild(b, r)
        elif name_mode:
            # name mode under its documented contract (A4): no context, config names fixed per rendering
            root = r.choice(plain_roots)
            live = [b.build(root, {'form': r.choice(['mem', 'json'] if not world.get('no_json') else ['mem', 'yaml']), 'name_suffix': ''}, pmode=False)]
            if r.random() < 0.7:
                # a second config set whose names extend the first one's (cfg1 / cfg1_v2 / cfg10): separate results side by side
                other = b.build(root, {'form': 'mem', 'name_suffix': r.choice(['_v2', '0', '.bak'])}, pmode=False)
                for n in b.names(other):
                    if r.random() < 0.8:
                        b.req(other, n)
                live.append(other)
        else:
            live = [b.build(root, b.render(rich=r.random() < 0.4))]
        # populate part of the store
        names = b.names(live[0])
        for n in r.sample(names, r.randint(0, len(names))):
            b.req(live[0], n)
        for _ in range(r.randint(2, 10)):
            t = r.random()
            cid = r.choice(live)
            names = b.names(cid)
            if t < 0.2:
                n = r.choice(names)
                dirs_ = [x for x in names if b.insts(cid)[x].kind in ('dir', 'listnp', 'cont')]
                if faulty and dirs_ and r.random() < 0.5:
                    n = r.choice(dirs_)       # directory-type results are removed entry by entry
                dele = r.random() < (0.7 if faulty else 0.4) and b.delete_ok(cid, [n], live)
                if dele and faulty and r.random() < 0.6:
                    # a file-system error while the stored result is removed: force has to report it (or have removed everything)
                    b.op(op='tforce', cid=cid, task=n, name=n, delete=True, diskerr={'k': r.randint(0, 4), 'errno': r.choice(['EIO', 'EACCES', 'EBUSY'])})
                else:
                    b.bump(cid, [n], 0.6)
                    b.op(op='tforce', cid=cid, task=n, name=n, delete=dele)
            elif t < 0.45:
                ns = b.pick_force_names(cid)
                b.bump(cid, b.closure(cid, ns), 0.5)
                if len(ns) >= 2 and r.random() < 0.4:
                    # the same, as two separate calls
                    b.op(op='cforce', cid=cid, tasks=ns[:1], names=ns[:1], recompute=False, delete=False)
                    ns = ns[1:]
                if faulty and r.random() < 0.5:
                    # a run fails inside Chain.force(recompute=True): the error comes out, what was not recomputed stays forced.
                    # Chain.force recomputes in the iteration order of a set of task objects, i.e. in no reproducible order: only
                    # closures that are a simple path (every order runs them in dependency order) keep the run replayable
                    insts = b.insts(cid)
                    clos = sorted(b.closure(cid, ns))
                    if _is_path(insts, clos):
                        b.op(op='armrun', slug=insts[r.choice(clos)].slug, kind=r.choice(['raise_start', 'raise_before_return']), at=0)
                        b.op(op='cforce', cid=cid, tasks=ns, names=ns, recompute=True, delete=False, fault_expected=True)
                        b.op(op='disarm')
                        continue
                b.op(op='cforce', cid=cid, tasks=ns, names=ns, recompute=r.random() < 0.45 and not faulty,
                     delete=r.random() < 0.4 and b.delete_ok(cid, ns, live), single_as_str=r.random() < 0.5, as_objects=r.random() < 0.25)
            elif t < 0.8:
                n = r.choice(names)
                if faulty and r.random() < 0.25:
                    insts = b.insts(cid)
                    ups = [n] + sorted(_upstream_names(insts[n]))
                    b.op(op='armrun', slug=insts[r.choice(ups)].slug, kind=r.choice(RUN_FAULTS[:4]), at=0)
                    b.req(cid, n)
                    b.op(op='disarm')
                b.bump(cid, [n], 0.1)      # nobody forced: the stored result keeps being served
                b.req(cid, n)
            elif t < 0.92:
                _inspect(b, cid, ['has_data', 'flags', 'flags', 'tasks_df'])
            elif name_mode:
                live.append(b.build(r.choice(plain_roots), {'form': 'mem', 'name_suffix': r.choice(['', '_v2', '0'])}, pmode=False))
            else:
                root2 = r.randrange(len(world['roots']))
                live.append(b.build(root2, b.render(rich=False)))
        # closing sweep: everything requested once, then a fresh chain loads all of it without running
        cid = r.choice(live)
        order = list(b.names(cid))
        r.shuffle(order)
        for n in order:
            b.req(cid, n)
        b.op(op='insp', cid=cid, kind='has_data')
    return b.scenario()


def gen_c06(r, knobs=None):
    """durable round trip: compute in one simulated process, load in another (other hash seed), compare with what run
    returned; value domain biased to large/boundary values."""
    kn = {'kinds': PERSISTED_KINDS[:-1], 'n_roots': (1, 1), 'n_pipes': (1, 2), 'classes_per_pipe': (2, 4)}
    kn.update(knobs or {})
    world = gen.gen_world(r, kn)
    b = B(world, r)
    b.proc(hs=r.choice([0, 1, 2]))
    b.use_rev = b.rr.random() < 0.5
    c0 = b.build(0, b.render(rich=False))
    names = b.names(c0)
    order = list(names)
    r.shuffle(order)
    for n in order:
        b.req(c0, n)
    if b.use_rev and b.rr.random() < 0.5:
        # the computation is repeated on purpose (something outside changed): what later chains load is what the last run returned
        for n in b.rr.sample(order, b.rr.randint(1, min(2, len(order)))):
            b.bump(c0, [n], 1.0)
            if b.rr.random() < 0.5:
                b.op(op='tforce', cid=c0, task=n, name=n, delete=False)
                b.req(c0, n)
            else:
                b.op(op='cforce', cid=c0, tasks=[n], names=[n], recompute=True, delete=False)
    if r.random() < 0.3:
        # a second chain in the same process loads what the first one stored
        c1 = b.build(0, b.render(rich=False))
        for n in order[: r.randint(1, len(order))]:
            b.req(c1, n)
            if r.random() < 0.3:
                b.bump(c1, [n], 0.6)
                b.op(op='tforce', cid=c1, task=n, name=n, delete=False)
                b.req(c1, n)
                c2 = b.build(0, b.render(rich=False))
                b.req(c2, n)
    for _ in range(r.randint(1, 2)):
        b.proc(hs=r.choice([0, 1, 2]))
        if r.random() < 0.4:
            # a chain whose caller scribbles over the loaded value, then later chains of the same process load it again
            cm = b.build(0, b.render(rich=False))
            b.req(cm, r.choice(b.names(cm)), mutate=True)
            b.op(op='drop', cid=cm)
        c = b.build(0, b.render(rich=r.random() < 0.3))
        order = list(b.names(c))
        r.shuffle(order)
        for n in order:
            b.req(c, n)
            if r.random() < 0.2:
                b.req(c, n)
    return b.scenario()


def gen_c02(r, knobs=None):
    """the same root built under composed computation-preserving rewritings, in processes with different hash seeds;
    later chains must find (not recompute) what earlier ones stored."""
    kn = {'n_roots': (1, 3), 'n_pipes': (1, 4), 'max_params': 4}
    kn.update(knobs or {})
    world = gen.gen_world(r, kn)
    b = B(world, r)
    nproc = r.randint(2, 4)
    hs = [0, 1, 2]
    r.shuffle(hs)
    for pi in range(nproc):
        b.proc(hs=hs[pi % 3])
        for _ in range(r.randint(1, 3)):
            root = r.randrange(len(world['roots']))
            cid = b.build(root, _equiv_render(b, root) if pi or r.random() < 0.5 else {'form': 'mem'})
            names = b.names(cid)
            for n in r.sample(names, r.randint(0, len(names))):
                b.req(cid, n)
            if r.random() < 0.3:
                b.op(op='insp', cid=cid, kind='data_path')
    return b.scenario()


def gen_c13(r, knobs=None):
    """MultiChains over 2-4 roots with overlapping pipelines and differing parameters/contexts; requests and forces
    interleaved across members; standalone chains of the same roots alongside; restarts."""
    kn = {'n_roots': (2, 4), 'n_pipes': (1, 4), 'p_override': 0.5, 'p_twin': 0.4}
    kn.update(knobs or {})
    world = gen.gen_world(r, kn)
    b = B(world, r)
    faulty = r.random() < 0.3
    b.use_rev = not faulty and b.rr.random() < 0.4
    for pi in range(r.randint(1, 3)):
        b.proc(hs=r.choice([0, 1]))
        live = []
        mids = []
        for _ in range(r.randint(3, 12)):
            t = r.random()
            if not mids or t < 0.12:
                cids = _mbuild(b, r)
                live += cids
                mids.append(cids[0].split('/')[0])
            elif t < 0.2:
                root = r.randrange(len(world['roots']))
                live.append(b.build(root, _equiv_render(b, root)))
            elif t < 0.7:
                cid = r.choice(live)
                n = r.choice(b.names(cid))
                if faulty and r.random() < 0.3:
                    insts = b.insts(cid)
                    ups = [n] + sorted(_upstream_names(insts[n]))
                    b.op(op='armrun', slug=insts[r.choice(ups)].slug, kind=r.choice(RUN_FAULTS[:4]), at=0)
                    b.req(cid, n)
                    b.op(op='disarm')
                    cid = r.choice(live)
                    n = r.choice([x for x in b.names(cid) if x.split('::')[-1] == n.split('::')[-1]] or b.names(cid))
                b.req(cid, n)
            elif t < 0.85:
                mid = r.choice(mids)
                members = b.multi_members[mid]
                common = set(b.names(members[0]))
                for m in members[1:]:
                    common &= set(b.names(m))
                if common:
                    ns = r.sample(sorted(common), min(len(common), r.choice([1, 1, 2])))
                    others = [c for c in live if c not in members]
                    dele = r.random() < 0.3 and all(b.delete_ok(m, ns, others + [m]) for m in members)
                    b.bump(members[0], ns, 0.5)
                    b.op(op='mforce', mid=mid, tasks=ns, names=ns, recompute=r.random() < 0.4 and not faulty, delete=dele, single_as_str=b.rr.random() < 0.5)
            elif t < 0.93:
                # forcing through one member chain (graph queries on a chain that holds shared task objects)
                cid = r.choice(live)
                ns = b.pick_force_names(cid, 2)
                if len(ns) >= 2 and r.random() < 0.4:
                    b.op(op='cforce', cid=cid, tasks=ns[:1], names=ns[:1], recompute=False, delete=False)
                    ns = ns[1:]
                b.op(op='cforce', cid=cid, tasks=ns, names=ns, recompute=r.random() < 0.3 and not faulty, delete=False)
            else:
                _inspect(b, r.choice(live), ['has_data', 'flags', 'data_path'])
    return b.scenario()


def gen_c18(r, knobs=None):
    """histories mixing successful runs, failing runs (own run or an upstream's), retries in the same chain, in a new chain
    of the same process and in a new process, forced recomputations, several chains holding tasks of the same full name;
    run info and log inspected after every step."""
    kn = {'kinds': PERSISTED_KINDS, 'n_roots': (1, 3), 'n_pipes': (1, 3), 'p_twin': 0.35}
    kn.update(knobs or {})
    world = gen.gen_world(r, kn)
    b = B(world, r)
    for pi in range(r.randint(1, 3)):
        b.proc(hs=r.choice([0, 1]))
        live = []
        quiet = False
        for _ in range(r.randint(3, 10)):
            t = r.random()
            if r.random() < 0.08:
                quiet = not quiet
                b.op(op='quietlog', on=quiet)
            if not live or t < 0.18:
                root = r.randrange(len(world['roots']))
                live.append(b.build(root, b.render(rich=r.random() < 0.4)))
                continue
            cid = r.choice(live)
            names = b.names(cid)
            name = r.choice(names)
            if t < 0.45:
                insts = b.insts(cid)
                ups = [name] + sorted(_upstream_names(insts[name]))
                victim = r.choice(ups)
                if r.random() < 0.5:
                    # the failing run is a forced recomputation over an existing result
                    b.req(cid, name)
                    b.op(op='tforce', cid=cid, task=victim, name=victim, delete=False)
                    if victim != name:
                        b.op(op='tforce', cid=cid, task=name, name=name, delete=False)
                b.op(op='armrun', slug=insts[victim].slug, kind=r.choice(RUN_FAULTS), at=r.choice([0, 1]))
                b.req(cid, name)
                if r.random() < 0.5:
                    # between the failed attempt and the retry the records still belong to the run that produced the stored result
                    b.op(op='insp', cid=cid, kind='run_info')
                if r.random() < 0.5:
                    # retry through a new chain of the same process (same logger names)
                    cid = b.build(b.chain_info[cid][0], b.render(rich=False))
                    live.append(cid)
                    name = r.choice([n for n in b.names(cid) if n.split('::')[-1] == name.split('::')[-1]] or b.names(cid))
                b.req(cid, name)
                b.op(op='disarm')
            elif t < 0.65:
                if r.random() < 0.5:
                    b.op(op='tforce', cid=cid, task=name, name=name, delete=False)
                else:
                    b.op(op='cforce', cid=cid, tasks=[name], names=[name], recompute=r.random() < 0.5, delete=False)
                b.req(cid, name)
            else:
                b.req(cid, name)
            b.op(op='insp', cid=cid, kind='run_info')
            b.op(op='insp', cid=cid, kind='log')
    return b.scenario()


def gen_c12(r, knobs=None):
    """upgrade history: simulated processes running the frozen release-1.4.0 tree compute and persist results; later
    processes running the current tree (other hash seed) on the same data directory must find, load and not recompute
    every one of them, at the documented layout, with run info and log beside the result."""
    kn = {'kinds': PERSISTED_KINDS, 'n_roots': (1, 3), 'n_pipes': (1, 4), 'no_for_ns': True, 'p_twin': 0.0,
          'families': ['int', 'int', 'str', 'float', 'bool', 'list', 'dict', 'none_or_int', 'placeholder', 'obj', 'objlist', 'intdict', 'phlist']}
    kn.update(knobs or {})
    # the old release has defects of its own (e.g. tasks of one config mounted under several namespaces are one object
    # with the first mounting's wiring); its processes only get roots outside those zones: every config mounted once
    for _ in range(20):
        world = gen.gen_world(r, kn)
        roots = [i for i, rt in enumerate(world['roots']) if len({ci for _, ci in A.mounts(world, rt)}) == len(A.mounts(world, rt))]
        if roots:
            break
    b = B(world, r)
    renders = {}
    pmode = r.random() < 0.85
    if not pmode:
        nm = [i for i in roots if not world['roots'][i].get('overrides')]
        if nm:
            roots = nm
        else:
            pmode = True
    b.proc(hs=r.choice([0, 1, 2]), tree='v140')
    for root in roots:
        rd = b.render(rich=True)
        if not pmode:
            rd['name_suffix'] = r.choice(['', '_v2', '.v2', '.final.1'])     # config names with dots are names too
        renders[root] = rd
        cid = b.build(root, rd, pmode=pmode)
        names = b.names(cid)
        for n in r.sample(names, r.randint(max(1, len(names) // 2), len(names))):
            b.req(cid, n)
    for _ in range(r.randint(1, 2)):
        b.proc(hs=r.choice([0, 1, 2]))
        order = list(roots)
        r.shuffle(order)
        for root in order:
            cid = b.build(root, renders[root], pmode=pmode)
            b.op(op='insp', cid=cid, kind='has_data')
            b.op(op='insp', cid=cid, kind='data_path')
            names = list(b.names(cid))
            r.shuffle(names)
            for n in names:
                b.req(cid, n)
            b.op(op='insp', cid=cid, kind='run_info')
            b.op(op='insp', cid=cid, kind='log')
            if r.random() < 0.3:
                b.op(op='insp', cid=cid, kind='links', name=None, keep=r.random() < 0.3)
            b.op(op='insp', cid=cid, kind='has_data')
    return b.scenario()


def gen_c20(r, knobs=None):
    """name-mode store partially computed -> dry migration -> migration -> second migration -> parameter-mode chain on
    the target; listings of source and target between the steps."""
    kn = {'kinds': PERSISTED_KINDS + ['mem'], 'n_roots': (1, 2), 'n_pipes': (1, 4), 'p_override': 0.0, 'p_twin': 0.25}
    kn.update(knobs or {})
    world = gen.gen_world(r, kn)
    b = B(world, r)
    root = r.randrange(len(world['roots']))
    rd = {'form': 'yaml' if world.get('no_json') else r.choice(['json', 'yaml']), 'file_tag': r.choice(['t0', 'deep/dir']), 'perm': r.choice([0, 3, 8])}
    if r.random() < 0.3:
        rd['tasks_form'] = 'wildcard'
    if r.random() < 0.3:
        rd['global_vars'] = {'VA': 'alpha', 'VB': 'beta'}
    if b.rr.random() < 0.3:
        # the pipeline lives in one multi-config file; the migrated config is its main part or a part named explicitly (`file#part`)
        rd['form'] = 'multi_' + rd['form']
        if b.rr.random() < 0.5:
            rd['main_part'] = False
    b.proc(hs=r.choice([0, 1]))
    c0 = b.build(root, rd, pmode=False, store='src')
    names = b.names(c0)
    for n in r.sample(names, r.randint(0, len(names))):
        b.req(c0, n)
    unfinished = [n for n in names if b.insts(c0)[n].kind in ('cont', 'dir')]
    if unfinished and b.rr.random() < 0.4:
        # an unfinished computation in the source: its work directory (kept for the next attempt / set aside) is part of the source too
        nu = b.rr.choice(unfinished)
        b.op(op='armrun', slug=b.insts(c0)[nu].slug, kind='raise_before_return', at=0)
        b.req(c0, nu)
        b.op(op='disarm')
    if r.random() < 0.25 and names:
        # the source store has a history of its own: a forced recomputation died there at some point
        b.proc(hs=r.choice([0, 1]))
        cx = b.build(root, rd, pmode=False, store='src')
        nx_ = r.choice(names)
        b.req(cx, nx_)
        b.op(op='tforce', cid=cx, task=nx_, name=nx_, delete=False)
        cr = {'k': r.randint(0, 14), 'tear': None}
        if r.random() < 0.4:
            cr['when'] = 'after'
        b.req(cx, nx_, crash=cr)
        b.proc(hs=0)
    b.op(op='ls', store='src')
    plan = r.choice([['dry', 'real', 'real'], ['real', 'real'], ['dry', 'dry', 'real'], ['real', 'dry', 'real'], ['dry', 'real']])
    first_real_done = False
    for step in plan:
        b.proc(hs=r.choice([0, 1, 2]))
        b.op(op='migrate', root=root, render=rd, store='src', target='tgt', dry=(step == 'dry'), verbose=r.random() < 0.5, prechain=r.random() < 0.25)
        b.op(op='ls', store='src', expect='unchanged', what='source')
        if step == 'dry' and not first_real_done:
            b.op(op='ls', store='tgt', expect='no_files')
        elif first_real_done:
            b.op(op='ls', store='tgt', expect='unchanged', what='target')
        else:
            b.op(op='ls', store='tgt')
            first_real_done = True
    b.proc(hs=r.choice([0, 1, 2]))
    c1 = b.build(root, rd, pmode=True, store='tgt')
    b.op(op='insp', cid=c1, kind='has_data')
    order = list(b.names(c1))
    r.shuffle(order)
    for n in order:
        b.req(c1, n)
    b.op(op='ls', store='src', expect='unchanged', what='source')
    return b.scenario()


def gen_c20crash(r, knobs=None):
    """the first real migration dies at some file-system operation (torn last write); it is run again (it may refuse the
    half-copied target, or complete the job - never report success over a partial copy), and once more."""
    kn = {'kinds': PERSISTED_KINDS + ['mem'], 'n_roots': (1, 2), 'n_pipes': (1, 3), 'p_override': 0.0, 'p_twin': 0.25}
    kn.update(knobs or {})
    world = gen.gen_world(r, kn)
    b = B(world, r)
    root = r.randrange(len(world['roots']))
    rd = {'form': 'yaml' if world.get('no_json') else r.choice(['json', 'yaml']), 'file_tag': 't0', 'perm': r.choice([0, 3])}
    b.proc(hs=r.choice([0, 1]))
    c0 = b.build(root, rd, pmode=False, store='src')
    names = b.names(c0)
    for n in r.sample(names, r.randint(max(1, len(names) // 2), len(names))):
        b.req(c0, n)
    b.op(op='ls', store='src')
    b.proc(hs=r.choice([0, 1, 2]))
    cr = _pick_crash(r, 6 + 3 * len(names))
    cr.pop('wlimit', None)
    b.op(op='migrate', root=root, render=rd, store='src', target='tgt', dry=False, verbose=False, prechain=False, crash=cr)
    for _ in range(2):
        b.proc(hs=r.choice([0, 1, 2]))
        b.op(op='migrate', root=root, render=rd, store='src', target='tgt', dry=False, verbose=r.random() < 0.3, prechain=False)
        b.op(op='ls', store='src', expect='unchanged', what='source')
    b.proc(hs=r.choice([0, 1, 2]))
    c1 = b.build(root, rd, pmode=True, store='tgt')
    b.op(op='insp', cid=c1, kind='has_data')
    order = list(b.names(c1))
    r.shuffle(order)
    for n in order:
        b.req(c1, n)
    return b.scenario()


def gen_c02zone(r, knobs=None):
    """known-finding zones of C02. F4: parameter objects that store a python set (AutoParameterObject repr follows set iteration
    order). F14: Path-typed parameter whose declared default is a Path object and is persisted (no dont_persist_default_value):
    leaving it out and spelling it in the config give different locations."""
    t = r.random()
    if t < 0.25:
        # F20: a parameter object that takes a mapping (here: **options) renders it in the order the config lists its keys
        return gen_c02(r, {'families': ['obj', 'obj', 'int'], 'n_pipes': (1, 2), 'max_params': 2, 'zone_optdict': True})
    if t < 0.55:
        return gen_c02(r, {'families': ['str', 'str', 'int'], 'n_pipes': (1, 2), 'max_params': 2, 'p_path': 0.8, 'zone_pathobj': True})
    return gen_c02(r, {'families': ['objset', 'objset', 'int', 'str'], 'n_pipes': (1, 2), 'max_params': 2})


def gen_c18zone(r, knobs=None):
    """known-finding zone F11: name mode, config names that differ only after a dot, directory-type results"""
    kn = {'kinds': ['dir', 'cont', 'listnp', 'dict'], 'n_roots': (1, 1), 'n_pipes': (1, 2), 'p_override': 0.0, 'p_twin': 0.0}
    world = gen.gen_world(r, kn)
    b = B(world, r)
    b.proc(hs=0)
    form = 'yaml' if world.get('no_json') else r.choice(['mem', 'json'])
    for sfx in r.sample(['', '.v2', '.final'], 2):
        cid = b.build(0, {'form': form, 'name_suffix': sfx}, pmode=False)
        for n in b.names(cid):
            b.req(cid, n)
    for sfx in ['', '.v2', '.final']:
        cid = b.build(0, {'form': form, 'name_suffix': sfx}, pmode=False)
        b.op(op='insp', cid=cid, kind='run_info')
        b.op(op='insp', cid=cid, kind='log')
    return b.scenario()
