"""python tcsim/mkwitness.py <PROP> <failing scenario json> <out witness json> [inv [substring]] : shrink a failing scenario while the same
(property, invariant[, zone]) discrepancy persists and store it as a committed witness."""
import json, sys
from pathlib import Path
sys.path.insert(0, str(Path(__file__).resolve().parents[1]))
from tcsim import core, check
pid, src, dst = sys.argv[1], sys.argv[2], sys.argv[3]
inv = sys.argv[4] if len(sys.argv) > 4 else None
must = sys.argv[5] if len(sys.argv) > 5 else None     # substring the discrepancy (message + detail) has to keep containing
eng = check.get_engine(check.PROPS[pid]['engine'])
scn = json.loads(Path(src).read_text())['scenario']
ctx = eng.setup_worker()
try:
    def sig(discs):
        return sorted({(d['prop'], d['inv'], d.get('zone')) for d in discs if d['prop'] == pid and (inv is None or d['inv'] == inv)
                       and (must is None or must in (d['msg'] + json.dumps(d.get('detail'), default=str)))})
    obs, discs = check.run_one(eng, scn, ctx)
    s0 = sig(discs)
    assert s0, 'scenario does not fail'
    final, steps = core.shrink(eng, scn, lambda c: sig(check.run_one(eng, c, ctx)[1]) == s0, ctx, budget_s=120)
    obs, discs = check.run_one(eng, final, ctx)
    Path(dst).write_text(core.jdump({'property': pid, 'scenario': final, 'expected_signature': [list(x[:2]) for x in sig(discs)],
                                     'discs': [d for d in discs if d['prop'] == pid][:6], 'ops': eng.size(final), 'shrink_steps': steps}))
    print('witness', dst, 'ops', eng.size(final), 'sig', sig(discs))
finally:
    eng.teardown_worker(ctx)
