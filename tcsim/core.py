"""Engine-independent core: seed derivation, parallel batch runner with timeouts, shrinking, replay files, evidence."""
import hashlib
import json
import multiprocessing as mp
import os
import random
import sys
import time
import traceback
from pathlib import Path

VERIF = Path(__file__).resolve().parents[1]
OUT = VERIF / 'out'


def rng_for(engine, profile, seed, index):
    h = hashlib.sha256(f'{engine}:{profile}:{seed}:{index}'.encode()).hexdigest()
    return random.Random(int(h[:16], 16))


def jdump(x):
    return json.dumps(x, sort_keys=True, ensure_ascii=True, default=str)


def digest(x):
    return hashlib.sha256(jdump(x).encode()).hexdigest()


class Engine:
    """interface every engine implements"""
    name = 'engine'

    def setup_worker(self):
        """called once in each worker process; may return a context object"""
        return None

    def teardown_worker(self, ctx):
        pass

    def generate(self, profile, rng, index):
        raise NotImplementedError

    def execute(self, scn, ctx):
        """-> observations (JSON-able).  Must be a pure function of scn and the code under test."""
        raise NotImplementedError

    def judge(self, scn, obs):
        """-> (discrepancies: list of dict with 'prop','inv','msg', stats: dict, states: list of str)"""
        raise NotImplementedError

    def shrink_candidates(self, scn):
        """yield smaller scenarios"""
        return iter(())

    def canon_obs(self, scn, obs):
        """observation stream with everything removed that neither the properties constrain nor the code orders"""
        return obs

    def finalize(self, scn, obs):
        """record into the scenario whatever the first execution decided (explicit schedule choice lists)"""
        return None


def _worker_main(engine, profile, seed, indices, outpath, prop, deadline, opts):
    import faulthandler
    faulthandler.enable()
    ctx = None
    known_saved = 0
    try:
        ctx = engine.setup_worker()
        with open(outpath, 'w') as out:
            for idx in indices:
                if time.time() > deadline:
                    out.write(jdump({'idx': idx, 'skipped': 'deadline'}) + '\n')
                    continue
                t0 = time.time()
                rec = {'idx': idx}
                try:
                    scn = engine.generate(profile, rng_for(engine.name, profile, seed, idx), idx)
                    scn['seed'] = seed
                    scn['index'] = idx
                    scn['profile'] = profile
                    obs = engine.execute(scn, ctx)
                    engine.finalize(scn, obs)
                    discs, stats, states = engine.judge(scn, obs)
                    rec.update(digest=digest(engine.canon_obs(scn, obs)), stats=stats, states=states, nops=engine.size(scn), sdigest=digest(scn))
                    rec['discs'] = [{'prop': d['prop'], 'inv': d['inv'], 'msg': d['msg'], 'op': d.get('op'), 'zone': d.get('zone')} for d in discs]
                    kz = set(opts.get('known_zones') or ())
                    mine_d = [d for d in discs if d['prop'] == prop]
                    fresh = [d for d in mine_d if d.get('zone') not in kz]
                    save = bool(fresh) or opts.get('save_all')
                    if mine_d and not fresh and known_saved < 2:
                        known_saved += 1
                        save = True
                    if discs and save:
                        fdir = OUT / 'fail' / prop
                        fdir.mkdir(parents=True, exist_ok=True)
                        fp = fdir / f'{profile}-{seed}-{idx}.json'
                        fp.write_text(jdump({'scenario': scn, 'discs': discs}))
                        rec['saved'] = str(fp)
                    if opts.get('return_obs'):
                        rec['obs'] = obs
                    if opts.get('sample') and idx < opts['sample']:
                        rec['sample'] = engine.sample(scn, obs)
                except Exception as e:  # harness error, never a violation
                    rec['harness_error'] = f'{type(e).__name__}: {e}\n{traceback.format_exc()[-1200:]}'
                rec['t'] = round(time.time() - t0, 4)
                out.write(jdump(rec) + '\n')
                out.flush()
    finally:
        try:
            engine.teardown_worker(ctx)
        except Exception:
            pass


def run_batch(engine, profile, prop, seed, n, workers=None, wall=None, opts=None, start=0):
    """run scenario indices start..start+n-1 over `workers` processes. -> list of records (sorted by idx)"""
    opts = opts or {}
    workers = workers or min(16, os.cpu_count() or 4)
    workers = max(1, min(workers, n))
    wall = wall or 3600
    deadline = time.time() + wall
    tmp = OUT / 'batch' / f'{prop}-{profile}-{seed}-{os.getpid()}'
    tmp.mkdir(parents=True, exist_ok=True)
    ctxm = mp.get_context('fork')
    procs = []
    for w in range(workers):
        idxs = list(range(start + w, start + n, workers))
        p = ctxm.Process(target=_worker_main, args=(engine, profile, seed, idxs, str(tmp / f'w{w}.jsonl'), prop, deadline, opts))
        p.start()
        procs.append(p)
    hung = False
    for p in procs:
        rem = deadline + 60 - time.time()
        p.join(max(1, rem))
        if p.is_alive():
            hung = True
            p.kill()
            p.join(5)
    recs = []
    for w in range(workers):
        fp = tmp / f'w{w}.jsonl'
        if fp.exists():
            for line in fp.read_text().splitlines():
                if line.strip():
                    try:
                        recs.append(json.loads(line))
                    except Exception:
                        pass
            fp.unlink()
    try:
        tmp.rmdir()
    except OSError:
        pass
    recs.sort(key=lambda r: r['idx'])
    return recs, hung


def shrink(engine, scn, same, ctx, budget_s=60, max_steps=400):
    """greedy delta debugging: keep any candidate for which `same(candidate)` still holds."""
    t0 = time.time()
    steps = 0
    improved = True
    cur = scn
    while improved and time.time() - t0 < budget_s and steps < max_steps:
        improved = False
        for cand in engine.shrink_candidates(cur):
            if time.time() - t0 > budget_s or steps >= max_steps:
                break
            steps += 1
            try:
                ok = same(cand)
            except Exception:
                ok = False
            if ok:
                cur = cand
                improved = True
                break
    return cur, steps


def write_evidence(prop, tier, seed, level, coverage, wall_s, violations, assumptions):
    ev = {'property_id': prop, 'tier': tier, 'seed': seed, 'level': level, 'coverage': coverage, 'assumptions': assumptions,
          'wall_s': round(wall_s, 2), 'violations': violations}
    p = VERIF / 'evidence' / f'{prop}.json'
    p.parent.mkdir(exist_ok=True)
    p.write_text(json.dumps(ev, indent=1, sort_keys=True, default=str))
    return ev


def load_known_findings():
    p = VERIF / 'known_findings.json'
    if not p.exists():
        return []
    return json.loads(p.read_text()).get('findings', [])
