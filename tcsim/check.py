"""Command line entry: ./check <PROPERTY> [--tier quick|thorough] [--replay FILE] [--n N] [--workers W]"""
import argparse
import json
import os
import sys
import time
from pathlib import Path

sys.path.insert(0, str(Path(__file__).resolve().parents[1]))

from tcsim import core  # noqa: E402

ASSUME_STORE = [
    'task computations are deterministic functions of declared parameters and inputs (generated run bodies are)',
    'crash = process death (os._exit) before or right after a file-system operation, or an interrupt exception raised at it that unwinds the stack before the process ends; kernel-received bytes survive, no power loss; torn write = prefix of the file opened by the last mutating fs operation; disk error = OSError at an operation, or a short write then OSError inside a write-opened file',
    'file system is the real tmpfs under /dev/shm (or /var/tmp); taskchain, filelock, orjson, yaml, numpy, pandas run real; tqdm bars, datetime in taskchain.task stubbed',
    'generator stays inside the working domain of unclaimed properties (DESIGN.md A2/A3): unique task names, no namespace that prefixes a task name, safe string alphabet',
]

REAL_VS_STUB = {
    'storesim': {'real': ['taskchain (from $TCSIM_REPO/src; for C12 also the frozen 1.4.0 copy)', 'orjson', 'yaml', 'numpy', 'pandas', 'networkx', 'logging', 'tmpfs file system', 'process death (os._exit of a forked interpreter)'],
                 'stub': ['tqdm bars', 'datetime in taskchain.task (simulated clock)', 'run bodies of the generated tasks', 'builtins.open / io.open (pass-through; only the one file a short-write / close-error / interrupt-inside-write fault targets is wrapped)'], 'excluded': ['FigureData', 'H5Data dataset I/O', 'Chain.draw']},
    'cachesim': {'real': ['taskchain.cache', 'filelock', 'orjson', 'numpy', 'pandas', 'tmpfs file system', 'process death inside a write (forked caller killed by the kernel: SIGXFSZ under RLIMIT_FSIZE)'], 'stub': ['computers / cached method bodies (generated)'], 'excluded': []},
    'schedsim': {'real': ['taskchain.cache', 'filelock (flock)', 'orjson', 'numpy', 'pandas', 'threads', 'tmpfs file system'],
                 'stub': ['time.sleep (lock poll -> yield, advances the simulated clock)', 'time.perf_counter / time.monotonic (simulated clock for lock deadlines, client threads only)', 'open() for files written under the cache directory (chunking proxy over the real file)', 'thread scheduling (baton)'], 'excluded': []},
    'pmapsim': {'real': ['taskchain.utils.threading / utils.iter', 'concurrent.futures.ThreadPoolExecutor', 'asyncio event loop'],
                'stub': ['tqdm', 'f (gate-controlled)', 'loop.call_soon_threadsafe counted (pass-through)'], 'excluded': []},
}
SIM_TIME = {
    'storesim': lambda st: f"{st.get('sim_clock_s', 0)} simulated seconds on the injected clock (every datetime.now() of taskchain.task advances it by 1 s)",
    'cachesim': lambda st: 'no clock in this engine (no timer or deadline in the code under test); history length is the measure: see simulated_ops',
    'schedsim': lambda st: f"{st.get('steps', 0)} scheduling steps (global event sequence number) and {round(st.get('sim_s', 0))} simulated seconds on the clock that lock polls (time.sleep) and computations advance and lock deadlines (time.perf_counter / monotonic) read",
    'pmapsim': lambda st: 'no clock: progress is measured in gate releases (one per element and run)',
}

# property -> configuration
PROPS = {}


def prop(pid, **kw):
    PROPS[pid] = kw


prop('C05', engine='storesim', profiles={'quick': [('c05', 1600)], 'thorough': [('c05', 40000)]}, level='fault_enumeration', prepare=lambda *x: c05_prepare(*x),
     rule='seeded fault histories over generated pipelines: each scenario = world + ops with crash index/tear/run fault/disk error; '
          'distinct = distinct scenario digest; non-trivial = at least one fault actually fired (crash reached its index, run fault raised, disk error injected)')


prop('C01', engine='storesim', profiles={'quick': [('c01', 2400)], 'thorough': [('c01', 60000)]}, level='exploration',
     nontrivial=lambda r: r['stats'].get('loads', 0) + r['stats'].get('mem_hits', 0) > 0 and r['stats'].get('runs', 0) > 0,
     rule='seeded histories over one data directory: several roots/contexts/namespace mountings/renderings, requests in any order, forcing, '
          'run failures, restarts with other hash seeds; every returned value compared with the provenance-bearing expected value; '
          'non-trivial = at least one value was computed and at least one was served from memory or storage; distinct = scenario digest')
prop('C02', engine='storesim', profiles={'quick': [('c02', 2400), ('c02zone', 160)], 'thorough': [('c02', 60000), ('c02zone', 2000)]}, level='exploration',
     nontrivial=lambda r: r['stats'].get('procs', 0) >= 2 and len(r['stats'].get('hs', [])) >= 2,
     rule='the same root built under composed computation-preserving rewritings (file/in-memory, JSON/YAML, renamed/moved files, outer namespace, '
          'permuted keys/tasks/uses, spelled defaults, other ignored values, config->context moves, other global_vars) in simulated processes with '
          'different PYTHONHASHSEED; same computation descriptor must give the same storage key; non-trivial = >=2 processes with >=2 hash seeds')
prop('C04', engine='storesim', profiles={'quick': [('c04', 2400)], 'thorough': [('c04', 60000)]}, level='exploration',
     nontrivial=lambda r: r['stats'].get('loads', 0) + r['stats'].get('mem_hits', 0) > 0,
     rule='fault-free, force-free histories of constructions (several roots, renderings, name mode in its own directory), requests, every kind of '
          'inspection, restarts, a second simulated process computing on the store while the first one stays alive (parked at a wait operation); observed run invocations vs model prediction; non-trivial = some request was served without running')
prop('C06', engine='storesim', profiles={'quick': [('c06', 1600)], 'thorough': [('c06', 40000)]}, level='exploration',
     nontrivial=lambda r: r['stats'].get('loads', 0) > 0,
     rule='compute in one simulated process, load in another (other hash seed); canonical type-strict comparison of returned vs loaded vs expected; '
          'audit-hook check that loads do not modify result files; non-trivial = at least one value loaded from storage')
prop('C07', engine='storesim', profiles={'quick': [('c07', 2400)], 'thorough': [('c07', 60000)]}, level='exploration',
     nontrivial=lambda r: r['stats'].get('forced_runs', 0) > 0,
     rule='force-heavy histories: Task.force/Chain.force with all flag combinations on arbitrary task sets and store states, arbitrary later requests; '
          'revisions of an external resource changed before forcing (the recomputed value differs from the stored one); flags, has_data, run invocations and values vs model; non-trivial = at least one forced task actually re-ran')


prop('C18', engine='storesim', profiles={'quick': [('c18', 2400), ('c18zone', 120)], 'thorough': [('c18', 60000), ('c18zone', 1500)]}, level='exploration',
     nontrivial=lambda r: r['stats'].get('records_checked', 0) > 0 and (r['stats'].get('runfaults', 0) > 0 or r['stats'].get('forced_runs', 0) > 0),
     rule='histories mixing successful runs, failing runs (own or upstream), retries in the same chain / a new chain of the same process / a new process, '
          'forced recomputations; every run writes unique markers to its log and run info; run_info and log inspected after each step against the model record '
          'of the run that produced the stored result (simulated clock identifies the run); non-trivial = records were checked after a failure or a forced rerun')
prop('C12', engine='storesim', profiles={'quick': [('c12', 1600)], 'thorough': [('c12', 40000)]}, level='exploration',
     nontrivial=lambda r: r['stats'].get('loads', 0) > 0,
     assumptions=['"earlier version" = verbatim copy of the pinned release-1.4.0 source under /verif/golden, run in its own simulated processes (real code, no stub); '
                  'its operations are not judged, only what it leaves in the store'],
     rule='mixed-version histories: processes running the frozen release-1.4.0 tree compute and persist results of generated pipelines (groups: none/single/'
          'multi-level/module-derived; namespaces; every data class; JSON-like/placeholder/parameter-object values; parameter and name mode), then processes '
          'running the current tree with another hash seed must report has_data, load equal values with zero runs, use the documented layout and find run info/log '
          'beside the result; non-trivial = at least one result stored by the old tree was loaded by the current one')
prop('C20', engine='storesim', profiles={'quick': [('c20', 1600), ('c20crash', 500)], 'thorough': [('c20', 40000), ('c20crash', 12000)]}, level='exploration',
     nontrivial=lambda r: r['stats'].get('loads', 0) > 0,
     rule='file-rendered roots: a name-mode chain computes an arbitrary subset (all data kinds incl. directory types), then dry / real / repeated migrations '
          'in fresh simulated processes, then a parameter-mode chain on the target: has_data exactly for what had data, equal values, zero runs; listings (files + '
          'sha256) of source and target compared between steps; non-trivial = at least one migrated result was loaded through the parameter-mode chain')
prop('C13', engine='storesim', profiles={'quick': [('c13', 2400)], 'thorough': [('c13', 60000)]}, level='exploration',
     nontrivial=lambda r: r['stats'].get('mem_shared_multichain', 0) > 0 or r['stats'].get('forced_runs', 0) > 0,
     rule='MultiChains over 2-4 generated roots (overlapping pipelines, differing parameters/contexts/namespaces), requests and MultiChain.force '
          'interleaved across members, standalone chains alongside; member == standalone model (tasks, keys, values), object identity iff same '
          'computation, values shared in memory, flags in every member; non-trivial = a value was served from memory of a shared object or a forced task re-ran')
ASSUME_CACHE = ['cache code runs real (taskchain.cache, filelock, orjson, numpy, pandas) on tmpfs; an interrupted write is modelled as the complete file '
                'truncated to a prefix (sequential writers); restart = new cache objects over the same directory',
                'keys: unicode strings incl. empty, NUL, separators, canonically equivalent pairs; npy/DataFrame caches carry no key, so misdirected files are generated for JSON caches only']
prop('C14', engine='cachesim', profiles={'quick': [('c14', 20000)], 'thorough': [('c14', 600000)]}, level='exploration',
     nontrivial=lambda r: bool(r['stats'].get('fired')) and r['stats'].get('hits', 0) > 0,
     assumptions_override=ASSUME_CACHE,
     rule='seeded histories of get / get_or_compute / force / sub-cache navigation / restart over Json(allow_nones both ways), Numpy, DataFrame and '
          'InMemory caches with raising computers, truncated/empty/garbage/removed/misdirected cache files, writers killed inside their write (forked caller, RLIMIT_FSIZE), forced recomputations returning ==-equal retyped or same-size values, judged against a dictionary model; '
          'non-trivial = at least one fault or restart happened and at least one hit was served; distinct = scenario digest')
prop('C16', engine='cachesim', profiles={'quick': [('c16', 20000)], 'thorough': [('c16', 600000)]}, level='exploration',
     nontrivial=lambda r: r['stats'].get('hits_other_spelling', 0) > 0,
     assumptions_override=ASSUME_CACHE[:1] + ['method signatures: 1-3 positional-or-keyword and 0-2 keyword-only parameters with/without defaults, ignore_kwargs, version, decorator cache or object cache; *args methods outside the domain'],
     rule='seeded families of cached methods and call histories: spellings of one binding (positional/keyword/permuted/defaults spelled or omitted), '
          'JSON-distinguishable argument values (1/True/1.0/...), force_cache/only_cache/store_cache_value, restarts; executions and returned values vs a '
          'model keyed by canonical binding; non-trivial = an entry was hit through a different spelling than the one that filled it')
prop('C15', engine='schedsim', profiles={'quick': [('sched', 4000)], 'thorough': [('sched', 150000)]}, level='exploration',
     nontrivial=lambda r: r['stats'].get('steps', 0) > 20,
     assumptions_override=['2-3 real caller threads, each with its own cache object (standing for threads or processes: the lock is the real flock), run one at a time under a baton; '
                           'pre-emption at every source line of taskchain/cache.py and utils/json.py, at every lock poll (time.sleep) and between write chunks; '
                           'real filelock, real files on tmpfs; time.sleep and open() are the only stubs', 'computers never raise in these schedules'],
     rule='seeded caller programs (get / get_or_compute / forced) on 1-2 keys x cache type x value size x write chunking x scheduling policy '
          '(random walk with switch probability, PCT priorities, writer-window bias); history checked for complete values, no failures, no recomputation '
          'after a completed call, complete entry at quiescence; distinct interleavings = digest of the schedule choice trace; non-trivial = more than 20 scheduling steps',
     extra_coverage=lambda recs: {'distinct_interleavings': len({tuple(r.get('states') or []) for r in recs})})
ASSUME_PMAP = ['f is gate-controlled: a call completes only when the controller releases it; in-flight sets follow the documented semantics '
               '(FIFO start, `threads` workers, chunk after chunk); real ThreadPoolExecutor and asyncio loop, tqdm stubbed']
prop('C17', engine='pmapsim', profiles={'quick': [('pmap', 6000), ('pmaplarge', 40), ('pmapzone', 16)], 'thorough': [('pmap', 200000), ('pmaplarge', 400), ('pmapzone', 64)]}, level='exploration',
     nontrivial=lambda r: r['stats'].get('out_of_order', 0) > 0,
     assumptions_override=ASSUME_PMAP,
     rule='seeded (n, threads, chunksize, sort, bar, input kind, raising element, output kind) x seeded completion order of the in-flight worker calls; '
          'result vs sequential map, exactly-once, exception propagation, per-chunk permutation, chunked vs slicing; '
          'non-trivial = workers completed in an order different from input order; distinct = scenario digest')


def c05_prepare(engine, tier, seed, a, cov):
    """exhaustive crash-point enumeration (DESIGN.md 4 C05): counting runs, then every crash index x tears, disk errors, run faults"""
    from tcsim.storesim import enum05
    combos = enum05.combos()
    if tier == 'quick':
        # every change: one kind per data class (JSONData once as dict, once as str), 3 tear lengths; thorough: all 14 kinds, 7 tears
        combos = [c for c in combos if c['kind'] in enum05.QUICK_KINDS]
        enum05.TEARS[:] = enum05.TEARS[:3]
    engine.explicit = [enum05.count_scenario(c) for c in combos]
    recs, hung = core.run_batch(engine, 'explicit-count', 'C05', seed, len(combos), workers=a.workers, wall=600, opts={'return_obs': True})
    scns = []
    points = {}
    for r in recs:
        if 'obs' not in r:
            raise RuntimeError('C05 counting run failed: ' + str(r.get('harness_error'))[:500])
        if any(d['prop'] == 'C05' for d in r['discs']):
            continue
        lst, n = enum05.expand(combos[r['idx']], r['obs'])
        c = combos[r['idx']]
        points[f'{c["kind"]}/{"forced" if c["forced"] else "first"}/{c["shape"]}' if c.get('mode') != 'delete' else f'{c["kind"]}/delete_data'] = n
        scns += lst
    engine.explicit = scns
    cov['enumeration'] = {'combos': len(combos), 'mutating_fs_operations_per_request': points, 'scenarios': len(scns),
                          'exhaustive_for': 'every crash index of the judged request of every listed combo in three modes (die before the operation, die right after it, interrupt exception unwinding the stack), 7 tear lengths after every write-open, ENOSPC/EIO at every operation, a short write then ENOSPC at 5 byte limits inside every write-open, every run-fault kind on every task involved; forced combos also followed by delete_data / a second force',
                          'kinds': sorted({c['kind'] for c in combos})}
    cov['exhaustive'] = False
    return [('explicit-enum', len(scns))]


def get_engine(name):
    if name == 'pmapsim':
        from tcsim.pmapsim import PmapEngine
        return PmapEngine()
    if name == 'schedsim':
        from tcsim.schedsim import SchedEngine
        return SchedEngine()
    if name == 'cachesim':
        from tcsim.cachesim import CacheEngine
        return CacheEngine()
    if name == 'storesim':
        from tcsim.storesim.engine import StoreEngine
        return StoreEngine()
    raise SystemExit(f'unknown engine {name}')


def signature(discs, pid):
    kz = {k['zone'] for k in core.load_known_findings() if k.get('property') == pid and k.get('status') == 'open'}
    return sorted({(d['prop'], d['inv']) for d in discs if d['prop'] == pid and d.get('zone') not in kz})


def run_one(engine, scn, ctx):
    obs = engine.execute(scn, ctx)
    engine.finalize(scn, obs)
    discs, stats, states = engine.judge(scn, obs)
    return obs, discs


def replay(pid, path):
    cfg = PROPS[pid]
    engine = get_engine(cfg['engine'])
    data = json.loads(Path(path).read_text())
    scn = data['scenario']
    ctx = engine.setup_worker()
    try:
        obs, discs = run_one(engine, scn, ctx)
    finally:
        engine.teardown_worker(ctx)
    known_zones = {k['zone'] for k in core.load_known_findings() if k.get('property') == pid and k.get('status') == 'open'}
    for d in discs:
        if d['prop'] == pid and d.get('zone') in known_zones:
            print(f'KNOWN-FINDING: property={pid} zone={d["zone"]}: {d["msg"]}')
    mine = [d for d in discs if d['prop'] == pid and d.get('zone') not in known_zones]
    exp = data.get('expected_signature')
    for d in mine[:5]:
        print(f'  {d["prop"]} {d["inv"]} op={d["op"]}: {d["msg"]} {json.dumps(d.get("detail"), default=str)[:400]}')
    if mine:
        same = exp is None or [list(x) for x in signature(discs, pid)] == [list(x) for x in exp]
        print(f'VIOLATION property={pid} replay={path}' + ('' if same else ' (signature differs from recorded)'))
        return 1
    print(f'replay of {path}: property {pid} held')
    return 0


def zone_of(pid, scn, discs):
    """known-finding zone predicate names satisfied by a (minimised) failing scenario"""
    zones = []
    try:
        from tcsim import zones as Z
        zones = Z.zones(pid, scn, discs)
    except ImportError:
        pass
    return zones


SELFTEST = [('storesim', p) for p in ('c01', 'c02', 'c04', 'c05', 'c06', 'c07', 'c12', 'c13', 'c18', 'c20', 'c20crash')] + \
           [('cachesim', 'c14'), ('cachesim', 'c16'), ('schedsim', 'sched'), ('pmapsim', 'pmap'), ('pmapsim', 'pmaplarge')]


def digests(engine_name, profile, seed, n, workers):
    engine = get_engine(engine_name)
    recs, hung = core.run_batch(engine, profile, 'SELFTEST', seed, n, workers=workers, wall=1200)
    return {str(r['idx']): r.get('digest') or ('HARNESS:' + r.get('harness_error', '?')[:80]) for r in recs}, hung


def selftest(a):
    """determinism: every engine/profile, n seeds, executed (1) here with W workers, (2) again here, (3) in a fresh interpreter
    under another PYTHONHASHSEED with another worker count; observation digests must be identical. exit 2 on mismatch."""
    import subprocess
    seed = int(os.environ.get('VERIF_SEED', '0') or 0)
    n = a.n or 60
    bad = 0
    total = 0
    for eng, prof in SELFTEST:
        if a.profile and prof != a.profile:
            continue
        d1, _ = digests(eng, prof, seed, n, 16)
        d2, _ = digests(eng, prof, seed, n, 5)
        env = dict(os.environ, PYTHONHASHSEED='987654')
        out = subprocess.run([sys.executable, '-W', 'ignore', __file__, 'digests', '--profile', f'{eng}:{prof}', '--n', str(n), '--workers', '9'],
                             env=env, capture_output=True, text=True, timeout=1800)
        try:
            d3 = json.loads(out.stdout.strip().splitlines()[-1])
        except Exception:
            print('selftest: fresh interpreter failed', out.stderr[-500:])
            d3 = {}
        mism = [i for i in d1 if not (d1[i] == d2.get(i) == d3.get(i)) or str(d1[i]).startswith('HARNESS')]
        total += len(d1)
        bad += len(mism)
        print(f'selftest {eng}:{prof}: {len(d1)} scenarios x 3 executions (16 / 5 / 9 workers, PYTHONHASHSEED 0 / 0 / 987654): '
              f'{"identical" if not mism else "MISMATCH at " + str(mism[:8])}', flush=True)
    print(f'selftest: {total} scenarios, {bad} mismatches')
    return 0 if bad == 0 else 2


def main(argv=None):
    ap = argparse.ArgumentParser()
    ap.add_argument('prop')
    ap.add_argument('--tier', default=os.environ.get('VERIF_TIER', 'quick'))
    ap.add_argument('--replay')
    ap.add_argument('--n', type=int)
    ap.add_argument('--workers', type=int, default=int(os.environ.get('TCSIM_WORKERS', '0')) or None)
    ap.add_argument('--profile')
    ap.add_argument('--no-shrink', action='store_true')
    ap.add_argument('--no-evidence', action='store_true')
    ap.add_argument('--wall', type=int)
    a = ap.parse_args(argv)
    pid = a.prop
    if pid == 'selftest':
        return selftest(a)
    if pid == 'regress':
        # regression corpus: witnesses of repaired defects must hold on the current tree; witnesses of open findings must still fail
        rc = 0
        for k in core.load_known_findings():
            w = k.get('witness')
            if not w:
                continue
            r = replay(k['property'], str(core.VERIF / w))
            if k['status'] == 'fixed' and r != 0:
                print(f'REGRESSION: {k["id"]} ({k["property"]}) returned: {w}')
                rc = 1
        return rc
    if pid == 'digests':
        eng, prof = a.profile.split(':')
        d, _ = digests(eng, prof, int(os.environ.get('VERIF_SEED', '0') or 0), a.n, a.workers)
        print(json.dumps(d))
        return 0
    if pid not in PROPS:
        print(f'property {pid} has no check (see MANIFEST.json not_applicable)')
        return 2
    if a.replay:
        return replay(pid, a.replay)
    tier = a.tier if a.tier in ('quick', 'thorough') else 'quick'
    seed = int(os.environ.get('VERIF_SEED', '0') or 0)
    cfg = PROPS[pid]
    if 'runner' in cfg:
        return cfg['runner'](pid, tier, seed, a)
    return generic_runner(pid, tier, seed, a, cfg)


def generic_runner(pid, tier, seed, a, cfg):
    engine = get_engine(cfg['engine'])
    t0 = time.time()
    print(f'[{pid}] engine={cfg["engine"]} tier={tier} VERIF_SEED={seed} repo={os.environ.get("TCSIM_REPO", "/repo")}', flush=True)
    all_recs = []
    harness = []
    hung_any = False
    plan = cfg['profiles'][tier]
    if a.profile:
        plan = [(p, n) for p, n in plan if p == a.profile] or [(a.profile, 100)]
    known = [k for k in core.load_known_findings() if k.get('property') == pid and k.get('status') == 'open']
    known_zones = {k['zone'] for k in known}
    extra_cov = {}
    # regression corpus first: witnesses of repaired defects of this property must hold on the current tree
    regress_fail = []
    if not a.profile:
        wctx = None
        try:
            for k in core.load_known_findings():
                if k.get('property') != pid or k.get('status') != 'fixed' or not k.get('witness'):
                    continue
                wp = core.VERIF / k['witness']
                if not wp.exists():
                    continue
                if wctx is None:
                    wctx = engine.setup_worker()
                wscn = json.loads(wp.read_text())['scenario']
                wobs, wdiscs = run_one(engine, wscn, wctx)
                if [d for d in wdiscs if d['prop'] == pid and d.get('zone') is None]:
                    regress_fail.append((k['id'], wp))
        finally:
            if wctx is not None:
                engine.teardown_worker(wctx)
        extra_cov['regression_witnesses_replayed'] = [k['id'] for k in core.load_known_findings() if k.get('property') == pid and k.get('status') == 'fixed' and k.get('witness')]
    if cfg.get('prepare') and not a.profile:
        plan = list(plan) + cfg['prepare'](engine, tier, seed, a, extra_cov)
    for profile, n in plan:
        n = (a.n or n) if not profile.startswith('explicit') else n
        recs, hung = core.run_batch(engine, profile, pid, seed, n, workers=a.workers, wall=a.wall or (600 if tier == 'quick' else 5400),
                                    opts={'sample': 3, 'known_zones': sorted(known_zones)})
        hung_any |= hung
        for r in recs:
            r['profile'] = profile
        all_recs += recs
    wall = time.time() - t0
    ran = [r for r in all_recs if 'digest' in r]
    harness = [r for r in all_recs if 'harness_error' in r]
    skipped = [r for r in all_recs if 'skipped' in r]

    def fresh_discs(r):
        return [d for d in r['discs'] if d['prop'] == pid and d.get('zone') not in known_zones]

    mine = [r for r in ran if fresh_discs(r)]
    known_hits = {}
    for r in ran:
        for d in r['discs']:
            if d['prop'] == pid and d.get('zone') in known_zones:
                e = known_hits.setdefault(d['zone'], {'count': 0, 'example': None})
                e['count'] += 1
                if e['example'] is None and r.get('saved'):
                    e['example'] = r['saved']
    aborted = {}
    for r in ran:
        for d in r['discs']:
            if d['prop'] != pid:
                aborted[d['prop']] = aborted.get(d['prop'], 0) + 1
    # ---- violations: shrink; known findings are matched by the zone the oracle attaches to each discrepancy
    violations = []
    known_lines = []
    for k in known:
        h = known_hits.get(k['zone'])
        if h:
            known_lines.append(f'KNOWN-FINDING: property={pid} {k["id"]}: {k["what"]} [{h["count"]} occurrences in this run; example scenario {h["example"]}]')
    ctx = None
    try:
        for r in mine[:6]:
            data = json.loads(Path(r['saved']).read_text())
            scn = data['scenario']
            sig = sorted({(d['prop'], d['inv']) for d in data['discs'] if d['prop'] == pid and d.get('zone') not in known_zones})
            final = scn
            steps = 0
            if ctx is None:
                ctx = engine.setup_worker()

            def cur_sig(discs):
                return sorted({(d['prop'], d['inv']) for d in discs if d['prop'] == pid and d.get('zone') not in known_zones})
            if not a.no_shrink:
                def same(c, _sig=sig):
                    obs, discs = run_one(engine, c, ctx)
                    return cur_sig(discs) == _sig
                final, steps = core.shrink(engine, scn, same, ctx, budget_s=45 if tier == 'quick' else 120)
            obs, discs = run_one(engine, final, ctx)
            rp = core.OUT / 'replay' / pid
            rp.mkdir(parents=True, exist_ok=True)
            fp = rp / f'{r["profile"]}-{seed}-{r["idx"]}.json'
            keep = [d for d in discs if d['prop'] == pid and d.get('zone') not in known_zones]
            fp.write_text(core.jdump({'property': pid, 'scenario': final, 'expected_signature': cur_sig(discs),
                                      'discs': keep[:10], 'seed': seed, 'index': r['idx'],
                                      'shrink_steps': steps, 'original_ops': engine.size(scn), 'ops': engine.size(final)}))
            violations.append((fp, keep[:3]))
    finally:
        if ctx is not None:
            engine.teardown_worker(ctx)
    # ---- evidence
    digests = {}
    fired_tot = {}
    stat_tot = {}
    states = set()
    nontrivial = set()
    for r in ran:
        digests[r['sdigest']] = True
        st = r['stats']
        for k, v in st.get('fired', {}).items():
            fired_tot[k] = fired_tot.get(k, 0) + v
        for k, v in st.items():
            if isinstance(v, (int, float)) and not isinstance(v, bool):
                stat_tot[k] = stat_tot.get(k, 0) + v
        states.update(r.get('states') or [])
        if cfg.get('nontrivial', _default_nontrivial)(r):
            nontrivial.add(r['sdigest'])
    samples = [r['sample'] for r in ran if 'sample' in r][:3]
    coverage = {
        'evaluations': len(ran), 'distinct_nontrivial': len(nontrivial), 'rule': cfg['rule'], 'samples': samples or ['(none)'],
        'distinct_scenarios': len(digests), 'distinct_abstract_states': len(states),
        'runs_per_hour': int(len(ran) / max(wall, 1e-6) * 3600), 'seeds': f'VERIF_SEED={seed}, run indices 0..{len(all_recs) - 1}',
        'simulated_ops': sum(r.get('nops', 0) for r in ran), 'fault_kinds_fired': fired_tot, 'reach_probes': stat_tot,
        'aborted_by_other_property': aborted, 'harness_errors': len(harness), 'skipped_for_deadline': len(skipped),
        'real_vs_stub': REAL_VS_STUB[cfg['engine']],
        'simulated_time': SIM_TIME[cfg['engine']](stat_tot),
        'exhaustive': False,
    }
    coverage.update(cfg.get('extra_coverage', lambda recs: {})(ran))
    coverage.update(extra_cov)
    if not a.no_evidence:
        core.write_evidence(pid, tier, seed, cfg['level'], coverage, wall, len(violations) + len(regress_fail), cfg.get('assumptions_override') or (ASSUME_STORE + cfg.get('assumptions', [])))
    print(f'[{pid}] runs={len(ran)} nontrivial={len(nontrivial)} wall={wall:.1f}s runs/h={coverage["runs_per_hour"]} fired={fired_tot} '
          f'aborted_by={aborted} harness_errors={len(harness)} skipped={len(skipped)}')
    for ln in known_lines:
        print(ln)
    for fid, wp in regress_fail:
        print(f'  repaired defect {fid} is back (witness scenario fails again)')
        print(f'VIOLATION property={pid} replay={wp}')
    if harness:
        print('HARNESS ERROR (not a violation):', harness[0]['harness_error'][:1500])
    if regress_fail and not violations:
        return 1
    if violations:
        for fp, ds in violations:
            for d in ds:
                print(f'  {d["inv"]} op={d["op"]}: {d["msg"]} {json.dumps(d.get("detail"), default=str)[:300]}')
            print(f'VIOLATION property={pid} replay={fp}')
        return 1
    if harness or hung_any or len(ran) == 0 or len(skipped) > len(all_recs) // 2:
        return 2
    return 0


def _default_nontrivial(r):
    return bool(r['stats'].get('fired'))


if __name__ == '__main__':
    try:
        rc = main()
    except SystemExit:
        raise
    except BaseException as e:      # anything raised outside an invariant is a harness error: exit 2, never a VIOLATION line
        import traceback
        traceback.print_exc()
        print(f'HARNESS ERROR (not a violation): {type(e).__name__}: {e}')
        rc = 2
    sys.exit(rc)
