"""debug helper: python tcsim/dbg.py <engine> <profile> <seed> <idx> [prop]"""
import sys, json
from pathlib import Path
sys.path.insert(0, str(Path(__file__).resolve().parents[1]))
from tcsim import core, check
eng = check.get_engine(sys.argv[1])
profile, seed, idx = sys.argv[2], int(sys.argv[3]), int(sys.argv[4])
only = sys.argv[5] if len(sys.argv) > 5 else None
scn = eng.generate(profile, core.rng_for(eng.name, profile, seed, idx), idx)
ctx = eng.setup_worker()
try:
    obs = eng.execute(scn, ctx)
finally:
    eng.teardown_worker(ctx)
discs, stats, states = eng.judge(scn, obs)
byi = {o['i']: o for o in obs}
if 'world' in scn:
    for c in scn['world']['classes']:
        print('CLS', c['slug'], c['kind'], c['style'], 'reads', c['reads'], 'inputs', [(i.get('cls'), i.get('rel'), i.get('optional')) for i in c['inputs']], 'params', [(p['name'], p['default'], p['ignore'], p['dpd']) for p in c['params']])
for pi, p in enumerate(scn.get('procs', [])):
    print('--- proc', pi, 'hs', p.get('hs'))
    for op in p['ops']:
        o = byi.get(op['i'])
        d = {k: v for k, v in op.items() if k not in ('render', 'i')}
        res = '' if o is None else json.dumps(o.get('res'), default=str)[:140]
        print(op['i'], json.dumps(d)[:150], '=>', res, 'INV', [r['task'] for r in (o or {}).get('inv', [])], 'CRASH' if (o or {}).get('crash') else '', (o or {}).get('fired', ''))
for d in discs:
    if only is None or d['prop'] == only:
        print('DISC', d['prop'], d['inv'], 'op', d['op'], d['msg'], json.dumps(d.get('detail'), default=str)[:600])
