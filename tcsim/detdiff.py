"""python tcsim/detdiff.py <engine> <profile> <idx> : execute a scenario several times, show the first differing observation"""
import sys, json
from pathlib import Path
sys.path.insert(0, str(Path(__file__).resolve().parents[1]))
from tcsim import core, check
eng = check.get_engine(sys.argv[1]); prof = sys.argv[2]; idx = int(sys.argv[3])
ctx = eng.setup_worker()
outs = []
for k in range(int(sys.argv[4]) if len(sys.argv) > 4 else 4):
    scn = eng.generate(prof, core.rng_for(eng.name, prof, 0, idx), idx)
    obs = eng.execute(scn, ctx)
    outs.append(eng.canon_obs(scn, obs))
eng.teardown_worker(ctx)
base = outs[0]
for k, o in enumerate(outs[1:], 1):
    if core.digest(o) != core.digest(base):
        if isinstance(o, list):
            for a, b in zip(base, o):
                if core.jdump(a) != core.jdump(b):
                    for key in set(a) | set(b):
                        if core.jdump(a.get(key)) != core.jdump(b.get(key)):
                            print('run', k, 'op', a.get('i'), 'field', key, '\n  A:', core.jdump(a.get(key))[:600], '\n  B:', core.jdump(b.get(key))[:600])
                    break
        else:
            for key in set(base) | set(o):
                if core.jdump(base.get(key)) != core.jdump(o.get(key)):
                    print('run', k, 'field', key, '\n  A:', core.jdump(base.get(key))[:400], '\n  B:', core.jdump(o.get(key))[:400])
        break
else:
    print('all identical')
