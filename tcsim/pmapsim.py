"""pmapsim: the real parallel_map implementations (real ThreadPoolExecutor, real asyncio loop) under a controller that
dictates the completion order of the worker calls.

f parks every call on a gate; the controller computes, from the documented semantics (FIFO start, `threads` workers,
chunk after chunk), which calls must be in flight, waits (condition variable, no timing) until exactly those have parked,
and releases the one the scenario's choice list names.  The choice list is part of the scenario: replay = same releases.
Only code that deviates from the documented in-flight sets ever meets the (bounded) fallback timeout.
"""
import asyncio
import copy
import os
import sys
import threading
import time

from .core import Engine

GATE_TIMEOUT = 8.0
STALL_TIMEOUT = 1.5
HANG_TIMEOUT = 4.0


class Boom(Exception):
    pass


EXC = {'Boom': Boom, 'StopIteration': StopIteration, 'RuntimeError': RuntimeError, 'NotImplementedError': NotImplementedError, 'KeyError': KeyError}


def ref_chunks(xs, cs):
    return [xs[i:i + cs] for i in range(0, len(xs), cs)] if xs else []


class Controller:
    def __init__(self, scn, chunks):
        self.scn = scn
        self.chunks = chunks            # list of lists of element ids, as documented
        self.cv = threading.Condition()
        self.parked = {}                # element -> Event
        self.calls = {}                 # element -> count
        self.released = []              # order of releases
        self.arrivals = []              # order in which calls started (arrival at the gate)
        self.done = False
        self.deviations = []
        self.choices = list(scn.get('order') or [])
        self.used_choices = []
        self.k = 0
        self.gate_timeouts = 0
        self.notified = 0            # completions that reached the event loop (call_soon_threadsafe calls)
        self.wait_notify = scn['threads'] > 1
        self.free_run = False

    # called from worker threads (or the main thread when threads == 1)
    def enter(self, x):
        ev = threading.Event()
        with self.cv:
            self.calls[x] = self.calls.get(x, 0) + 1
            self.arrivals.append(x)
            if self.free_run:
                # the code under test kept deviating from the documented in-flight sets (reported): no more gating
                self.released.append(x)
                return
            self.parked[x] = ev
            self.cv.notify_all()
        if not ev.wait(GATE_TIMEOUT):
            with self.cv:
                self.gate_timeouts += 1
                self.parked.pop(x, None)

    def stall(self):
        # code that keeps deviating from the documented in-flight sets (it is reported as such) is not waited for at length
        return STALL_TIMEOUT if len(self.deviations) <= 40 else 0.02

    def finish(self):
        with self.cv:
            self.done = True
            self.cv.notify_all()

    def choose(self, cands):
        if self.k < len(self.choices):
            c = self.choices[self.k]
        elif self.scn.get('cycle_order') and self.choices:
            c = self.choices[self.k % len(self.choices)]
        else:
            c = 0
        self.k += 1
        self.used_choices.append(c)
        return cands[c % len(cands)]

    def run(self):
        T = max(1, self.scn['threads'])
        for chunk in self.chunks:
            # documented in-flight set, kept incrementally: the first T + |completed| elements of the chunk have been started
            completed = set()
            chunk_set = set(chunk)
            inflight = []
            nstarted = 0
            while len(completed) < len(chunk):
                target = min(len(chunk), T + len(completed))
                while nstarted < target:
                    if chunk[nstarted] not in completed:
                        inflight.append(chunk[nstarted])
                    nstarted += 1
                expected = list(inflight)
                if len(self.deviations) > 40:
                    with self.cv:
                        self.free_run = True
                        for e_, ev_ in list(self.parked.items()):
                            self.released.append(e_)
                            ev_.set()
                        self.parked.clear()
                    return
                with self.cv:
                    ok = self.cv.wait_for(lambda: self.done or all(e in self.parked for e in expected), timeout=self.stall())
                    if self.done and not self.parked:
                        return
                    if not ok or not all(e in self.parked for e in expected):
                        # the code under test does not have the documented calls in flight: release what there is
                        cands = sorted(self.parked, key=lambda e: self.arrivals.index(e))
                        self.deviations.append({'expected': expected, 'parked': cands})
                        if not cands:
                            if self.done:
                                return
                            completed.add(expected[0])   # give up on it
                            inflight.remove(expected[0])
                            continue
                    else:
                        cands = list(expected)
                        early = sorted(x for x in self.parked if x not in inflight)
                        if early:
                            # calls the documented semantics would not have started yet are in flight: they may complete first too
                            self.deviations.append({'early_start': early})
                            cands += early
                    e = self.choose(cands)
                    ev = self.parked.pop(e)
                    self.released.append(e)
                    ev.set()
                    if self.wait_notify:
                        # the next release waits until this completion has been handed to the event loop: completion
                        # order as seen by parallel_map == release order, not thread timing
                        target_n = len(self.released)
                        if not self.cv.wait_for(lambda: self.notified >= target_n or self.done, timeout=self.stall()):
                            # completions do not come through the event loop this call was given (the code under test uses
                            # another one): the hand-over cannot be observed, stop waiting for it
                            self.deviations.append({'no_completion_handover': e})
                            self.wait_notify = False
                if e in chunk_set and e not in completed:
                    completed.add(e)
                    if e in inflight:
                        inflight.remove(e)
        # drain anything unexpected (e.g. elements called twice)
        while True:
            with self.cv:
                self.cv.wait_for(lambda: self.done or self.parked, timeout=self.stall())
                if not self.parked:
                    if self.done:
                        return
                    continue
                e = sorted(self.parked, key=lambda q: self.arrivals.index(q))[0]
                self.deviations.append({'extra_call': e})
                self.parked.pop(e).set()
                self.released.append(e)


def make_input(kind, xs):
    if kind == 'list':
        return list(xs)
    if kind == 'tuple':
        return tuple(xs)
    if kind == 'range':
        return range(len(xs))
    if kind == 'gen':
        return (x for x in xs)
    if kind == 'iter':
        return iter(list(xs))
    if kind == 'dictkeys':
        return {x: None for x in xs}
    raise ValueError(kind)


class PmapEngine(Engine):
    name = 'pmapsim'

    def setup_worker(self):
        repo_src = os.path.join(os.environ.get('TCSIM_REPO', '/repo'), 'src')
        sys.path.insert(0, repo_src)
        import warnings
        warnings.filterwarnings('ignore')
        import taskchain.utils.threading as tct
        import taskchain.utils.iter as tci
        assert os.path.realpath(tct.__file__).startswith(os.path.realpath(repo_src))

        class NoBar:
            def __init__(self, it=None, *a, **k):
                self.it = it
                self.n = 0

            def __iter__(self):
                return iter(self.it)

            def update(self, n=1):
                self.n += n

            def close(self):
                pass

        tct.tqdm = NoBar
        tci.tqdm = NoBar
        tci.tqdm_notebook = NoBar
        return {'tct': tct, 'tci': tci}

    def generate(self, profile, r, index):
        n = r.choice([0, 1, 2, 3, 4, 5, 6, 7, 8, 9, 10, 12])
        threads = r.choice([1, 2, 2, 3, 4, 5])
        impl = r.choice(['threading', 'threading', 'threading', 'iter', 'starmap'])
        cs = r.choice([1, 2, 3, 4, 5, n, n + 1, max(1, n - 1), 1000]) if impl != 'iter' else max(n, 1)
        cs = max(1, cs)
        scn = {'engine': 'pmapsim', 'impl': impl, 'n': n, 'threads': threads, 'chunksize': cs, 'sort': r.random() < 0.6 or impl == 'iter',
               'bar': r.random() < 0.5, 'input': r.choice(['list', 'list', 'range', 'gen', 'iter', 'tuple', 'dictkeys']),
               'raise_at': r.choice([None, None, None, r.randrange(n)]) if n else None,
               'values': r.choice(['distinct', 'distinct', 'equal', 'unorderable', 'excobj']),
               'total': r.choice([None, None, n]),
               'order': [r.randrange(6) for _ in range(n + 2)],
               # a second, ungated call of the other implementation in the same thread afterwards (event-loop hygiene between calls)
               'then': r.choice([None, None, 'iter', 'threading']),
               'exc': r.choice(['Boom', 'Boom', 'StopIteration', 'RuntimeError', 'NotImplementedError', 'KeyError'])}
        if r.random() < 0.25:
            scn['order'] = [5] * (n + 2)    # always the newest in flight: later elements finish first
        if n and r.random() < 0.3 and scn['input'] != 'range':
            # one element is a value that code may mistake for "nothing": None, an empty string / tuple
            scn['special'] = {'at': r.randrange(n), 'what': r.choice(['None', 'None', 'emptystr', 'emptytuple'])}
        if profile == 'pmaplarge':
            # inputs longer than the default chunk size and than any plausible internal batch; few schedule choices, cycled
            n = r.choice([999, 1000, 1001, 1999, 2001, 3000, 4097, 10001, 10500, 20001])
            scn.update(n=n, threads=r.choice([2, 3, 8]), impl=r.choice(['threading', 'iter', 'starmap']),
                       chunksize=r.choice([1000, 1000, 256, 97, 4096]), sort=r.random() < 0.7, raise_at=None, then=None,
                       total=r.choice([None, n]), order=[r.randrange(6) for _ in range(61)], cycle_order=True, values='distinct')
            if 'special' in scn:
                scn['special']['at'] = r.choice([0, 1000, 2000, n - 1, r.randrange(n)]) % n
        if profile == 'pmapzone':
            # known finding F13: StopIteration raised by f in a worker thread cannot be carried by an asyncio future
            scn.update(threads=max(2, threads), n=max(1, n), exc='StopIteration', then=None)
            scn['raise_at'] = r.randrange(scn['n'])
            scn['order'] = [r.randrange(6) for _ in range(scn['n'] + 2)]
        elif scn['exc'] == 'StopIteration' and scn['threads'] > 1:
            scn['exc'] = 'Boom'
        return scn

    def size(self, scn):
        return scn['n']

    def canon_obs(self, scn, obs):
        # the order in which simultaneously started worker calls reach their gates is real thread timing and irrelevant:
        # the controller acts only once the documented in-flight set is complete
        return {k: v for k, v in obs.items() if k != 'arrivals'}

    def sample(self, scn, obs):
        return {'scenario': scn, 'released': obs.get('released'), 'result': obs.get('result')}

    def execute(self, scn, ctx):
        n = scn['n']
        xs = list(range(n))
        T = scn['threads']
        impl = scn['impl']
        cs = scn['chunksize'] if impl != 'iter' else max(n, 1)
        chunks = ref_chunks(xs, cs) if T > 1 else ([[x] for x in xs])
        if T == 1:
            chunks = [[x] for x in xs]
        ctl = Controller(scn, chunks)
        vals = scn.get('values', 'distinct')

        sp = scn.get('special')
        SPECIAL = {'None': None, 'emptystr': '', 'emptytuple': ()}

        def elem(x):
            return SPECIAL[sp['what']] if sp and x == sp['at'] else x

        def ident(e):
            return e if isinstance(e, int) and not isinstance(e, bool) else (sp['at'] if sp else e)

        def out(x):
            if vals == 'excobj':
                return ValueError(x)     # an exception object as an ordinary return value
            if vals == 'equal':
                return 42
            if vals == 'unorderable':
                return {'v': x}
            return x * 7 + 1

        def f(x):
            x = ident(x)
            ctl.enter(x)
            if scn.get('raise_at') is not None and x == scn['raise_at']:
                raise EXC[scn.get('exc', 'Boom')](f'boom {x}')
            return out(x)

        elems = [elem(x) for x in xs]
        inp = make_input(scn['input'], elems)
        res = {'result': None, 'error': None}
        th = threading.Thread(target=ctl.run, daemon=True)

        def call():
            loop = asyncio.new_event_loop()
            asyncio.set_event_loop(loop)
            orig_csts = loop.call_soon_threadsafe

            def counting_csts(cb, *args, **kw):
                with ctl.cv:
                    ctl.notified += 1
                    ctl.cv.notify_all()
                return orig_csts(cb, *args, **kw)
            loop.call_soon_threadsafe = counting_csts
            try:
                if impl == 'threading':
                    kw = dict(threads=T, sort=scn['sort'], use_tqdm=scn['bar'], chunksize=cs)
                    if scn.get('total') is not None:
                        kw['total'] = scn['total']
                    r = ctx['tct'].parallel_map(f, inp, **kw)
                elif impl == 'starmap':
                    inp2 = make_input(scn['input'] if scn['input'] not in ('range', 'dictkeys') else 'list', [(elem(x), x + 1) for x in xs])
                    r = ctx['tct'].parallel_starmap(lambda a, b: f(a), inp2, threads=T, sort=scn['sort'], use_tqdm=scn['bar'], chunksize=cs)
                else:
                    r = ctx['tci'].parallel_map(f, inp, threads=T)
                res['result'] = _canon(r)
                if scn.get('then'):
                    res['then'] = second_call()
            except Exception as e:
                res['error'] = [type(e).__name__, str(e)[:200]]
                if scn.get('then') and scn.get('raise_at') is not None:
                    res['then'] = second_call()
            finally:
                res['returned'] = True

        def second_call():
            # a later, ungated call of an implementation in the same thread (event-loop / executor hygiene between calls)
            try:
                if scn['then'] == 'iter':
                    return _canon(ctx['tci'].parallel_map(lambda x: x + 1, [10, 11, 12], threads=max(2, T)))
                return _canon(ctx['tct'].parallel_map(lambda x: x + 1, [10, 11, 12], threads=max(2, T), use_tqdm=False, chunksize=2))
            except Exception as e2:
                return ['error', type(e2).__name__, str(e2)[:120]]

        runner = threading.Thread(target=call, daemon=True)
        th.start()
        runner.start()
        runner.join(HANG_TIMEOUT if scn.get('exc') == 'StopIteration' and T > 1 else 60)
        if runner.is_alive():
            res['error'] = ['HANG', 'parallel_map did not return']
            res['returned'] = False
        ctl.finish()
        th.join(GATE_TIMEOUT + 5)
        res.update(released=ctl.released, arrivals=ctl.arrivals, calls={str(k): v for k, v in sorted(ctl.calls.items())},
                   deviations=ctl.deviations[:5], gate_timeouts=ctl.gate_timeouts, choices=ctl.used_choices,
                   controller_alive=th.is_alive())
        # chunked (pure, part of C17's statement): same inputs
        try:
            ch = [[ident(e) for e in c] for c in ctx['tci'].chunked(make_input(scn['input'], elems), scn['chunksize'])]
        except Exception as e:
            ch = ['error', type(e).__name__]
        res['chunked'] = ch
        res['expected_out'] = [_canon([out(x)])[0] for x in xs]
        return res

    def judge(self, scn, obs):
        discs = []

        def d(inv, msg, **detail):
            discs.append({'prop': 'C17', 'inv': inv, 'op': None, 'msg': msg, 'detail': detail})

        n = scn['n']
        xs = list(range(n))
        exp = obs['expected_out']
        T = scn['threads']
        impl = scn['impl']
        cs = scn['chunksize'] if impl != 'iter' else max(n, 1)
        raise_at = scn.get('raise_at')
        calls = {int(k): v for k, v in obs['calls'].items()}
        if obs.get('error') and obs['error'][0] == 'HANG':
            zone = 'stopiteration_in_worker_thread' if scn.get('exc') == 'StopIteration' and T > 1 and raise_at is not None else None
            discs.append({'prop': 'C17', 'inv': 'I-returns', 'op': None, 'zone': zone,
                          'msg': 'parallel_map never returned (the exception raised by f was neither propagated nor anything else returned)',
                          'detail': {'exc': scn.get('exc'), 'threads': T, 'released': obs.get('released')}})
            stats = {'fired': {'f_raises': 1}, 'out_of_order': 0, 'chunks': 0, 'exception_in_flight': 1, 'deviations': 0, 'chunk_boundary_crossed': 0}
            return discs, stats, ['hang']
        if obs.get('controller_alive') or obs.get('gate_timeouts'):
            d('I-liveness', 'calls stayed parked / controller did not finish', gate_timeouts=obs.get('gate_timeouts'), deviations=obs['deviations'])
        if raise_at is None:
            if obs['error'] is not None:
                d('I-result', 'parallel_map raised although f did not', error=obs['error'])
            else:
                res = obs['result']
                if scn['sort'] or T == 1:
                    if res != exp:
                        d('I-order', 'result differs from [f(x) for x in xs]', got=res, expected=exp, released=obs['released'])
                else:
                    ok = isinstance(res, list) and len(res) == len(exp)
                    if ok:
                        for c in ref_chunks(list(range(n)), cs):
                            a = sorted(map(repr, res[c[0]:c[-1] + 1]))
                            b = sorted(map(repr, [exp[i] for i in c]))
                            if a != b:
                                ok = False
                    if not ok:
                        d('I-permutation', 'sort=False: result is not a per-chunk permutation of the outputs', got=res, expected=exp, chunksize=cs, released=obs['released'])
            for x in xs:
                if calls.get(x, 0) != 1:
                    d('I-once', f'f called {calls.get(x, 0)} times for element {x}', calls=obs['calls'])
                    break
        else:
            en = scn.get('exc', 'Boom')
            if obs['error'] is None or obs['error'][0] != en or f'boom {raise_at}' not in obs['error'][1]:
                d('I-exception', 'exception raised by f was not propagated', got=obs['error'], result=obs['result'])
            for x in xs:
                if calls.get(x, 0) > 1:
                    d('I-once', f'f called {calls.get(x, 0)} times for element {x}', calls=obs['calls'])
                    break
        if 'then' in obs and obs['then'] != [11, 12, 13]:
            d('I-second-call', 'a later parallel_map call in the same thread does not equal map', got=obs['then'], first=scn['impl'], second=scn.get('then'))
        if any(x not in range(n) for x in calls):
            d('I-once', 'f called with something that is not an element', calls=obs['calls'])
        if obs['chunked'] != ref_chunks(xs, scn['chunksize']):
            d('I-chunked', 'chunked() differs from consecutive slicing', got=obs['chunked'], expected=ref_chunks(xs, scn['chunksize']))
        rel = obs['released']
        stats = {'fired': {}, 'out_of_order': int(rel != sorted(rel)), 'chunks': len(ref_chunks(xs, cs)) if T > 1 else n,
                 'exception_in_flight': int(raise_at is not None and T > 1 and n > 1), 'deviations': len(obs['deviations']),
                 'chunk_boundary_crossed': int(T > 1 and len(ref_chunks(xs, cs)) > 1)}
        if rel != sorted(rel):
            stats['fired']['completion_permutation'] = 1
        if raise_at is not None:
            stats['fired']['f_raises'] = 1
        return discs, stats, [str(rel)]

    def shrink_candidates(self, scn):
        if scn['n'] > 40:
            for m in (scn['n'] // 2, scn['n'] - 1000, scn['n'] - 100):
                if m > 0:
                    c = copy.deepcopy(scn)
                    c['n'] = m
                    if c.get('special') and c['special']['at'] >= m:
                        c['special']['at'] = m - 1
                    yield c
        if scn['n'] > 0:
            c = copy.deepcopy(scn)
            c['n'] -= 1
            if c.get('raise_at') is not None and c['raise_at'] >= c['n']:
                c['raise_at'] = c['n'] - 1 if c['n'] else None
            if c.get('special') and c['special']['at'] >= c['n']:
                c['special'] = None
            yield c
        if scn['threads'] > 2:
            c = copy.deepcopy(scn)
            c['threads'] -= 1
            yield c
        for k, v in (('bar', False), ('input', 'list'), ('values', 'distinct'), ('total', None), ('special', None)):
            if scn.get(k) != v:
                c = copy.deepcopy(scn)
                c[k] = v
                yield c
        if scn['impl'] == 'starmap':
            c = copy.deepcopy(scn)
            c['impl'] = 'threading'
            yield c
        if scn.get('raise_at') is not None:
            c = copy.deepcopy(scn)
            c['raise_at'] = None
            yield c
        for i, v in enumerate(scn.get('order') or []):
            if v:
                c = copy.deepcopy(scn)
                c['order'][i] = 0
                yield c
        if scn['chunksize'] > 1:
            c = copy.deepcopy(scn)
            c['chunksize'] -= 1
            yield c


def _canon(r):
    if isinstance(r, list):
        return [x if isinstance(x, (int, str)) else repr(x) for x in r]
    return repr(r)
