"""list discrepancies of all properties found by a profile: python tcsim/others.py <engine> <profile> <n> [seed]"""
import sys, json, collections
from pathlib import Path
sys.path.insert(0, str(Path(__file__).resolve().parents[1]))
from tcsim import core, check
eng = check.get_engine(sys.argv[1]); profile = sys.argv[2]; n = int(sys.argv[3]); seed = int(sys.argv[4]) if len(sys.argv) > 4 else 0
recs, hung = core.run_batch(eng, profile, 'ANY', seed, n, wall=900)
c = collections.Counter(); ex = {}
for r in recs:
    if 'harness_error' in r:
        c[('HARNESS', r['harness_error'].splitlines()[0][:100])] += 1; ex.setdefault(('HARNESS', r['harness_error'].splitlines()[0][:100]), r['idx'])
    for d in r.get('discs', []):
        k = (d['prop'], d['inv'], d['msg'].split(':')[-1][:70] if d['inv'] in ('I-value', 'I-has-data') else d['msg'][:60].split(' of ')[0])
        c[k] += 1; ex.setdefault(k, r['idx'])
for k, v in c.most_common(40):
    print(v, k, 'e.g. idx', ex[k])
print('runs', len(recs), 'hung', hung)
