"""schedsim: 2-3 real caller threads over the real FileCache + real filelock, one baton, pre-empted at every source line
of taskchain/cache.py and taskchain/utils/json.py, at every lock poll (time.sleep) and between the chunks of every file
write.  Which thread runs next is decided by the scenario (policy + seed on first execution; the recorded explicit choice
list afterwards: the replay file carries the list)."""
import builtins
import copy
import io
import os
import random
import shutil
import sys
import tempfile
import threading
import time
from pathlib import Path

from .core import Engine
from . import values as V

STEP_CAP = 6000
NOVAL = '$NO_VALUE'


class Abort(Exception):
    pass


class Sched:
    def __init__(self, scn, nthreads):
        self.scn = scn
        self.n = nthreads
        self.events = [threading.Event() for _ in range(nthreads)]
        self.done = [False] * nthreads
        self.sleeping = [False] * nthreads
        self.cur = None
        self.step = 0
        self.trace = []          # chosen thread per decision
        self.choices = list(scn['choices']) if scn.get('choices') is not None else None
        self.pol = scn.get('policy') or {'kind': 'random', 'p': 0.3, 'seed': 0}
        self.rng = random.Random(self.pol.get('seed', 0))
        self.k = 0
        self.free_run = False
        self.lock = threading.Lock()
        self.tids = {}
        self.marks = {}          # tid -> last mark ('opened', file) etc.
        self.prio = None
        self.change_points = None
        self.all_sleep_rounds = 0
        self.deadlock = False
        self.windows = {'reader_met_truncated': 0, 'two_waiting_on_lock': 0, 'preempt_in_save': 0}
        self.where = [None] * nthreads

    def me(self):
        return self.tids.get(threading.get_ident())

    def runnable(self):
        return [i for i in range(self.n) if not self.done[i]]

    def decide(self, cands, cur):
        """-> thread id among cands"""
        if self.choices is not None:
            if self.k < len(self.choices):
                c = self.choices[self.k]
            else:
                c = 0
            self.k += 1
            t = cands[c % len(cands)]
            self.trace.append(cands.index(t))
            return t
        kind = self.pol['kind']
        if kind == 'random':
            if cur in cands and self.rng.random() >= self.pol.get('p', 0.3):
                t = cur
            else:
                t = self.rng.choice(cands)
        elif kind == 'pct':
            if self.prio is None:
                self.prio = list(range(self.n))
                self.rng.shuffle(self.prio)
                self.change_points = sorted(self.rng.randrange(1, self.pol.get('horizon', 400)) for _ in range(self.pol.get('d', 2)))
            while self.change_points and self.step >= self.change_points[0]:
                self.change_points.pop(0)
                if cur is not None:
                    self.prio[cur] = min(self.prio) - 1
            t = max(cands, key=lambda i: self.prio[i])
        else:  # writer_window: stay with the writer until it has opened (truncated) a file, then run somebody else for a while
            w = self.pol.get('writer', 0)
            st = self.pol.setdefault('_st', 0)
            if st == 0:
                if w in cands and self.marks.get(w) != 'opened':
                    t = w
                else:
                    self.pol['_st'] = 1
                    self.pol['_left'] = self.pol.get('hold', 60)
                    others = [c for c in cands if c != w] or cands
                    t = self.rng.choice(others)
            elif st == 1 and self.pol['_left'] > 0:
                self.pol['_left'] -= 1
                others = [c for c in cands if c != w] or cands
                t = cur if cur in others else self.rng.choice(others)
            else:
                self.pol['_st'] = 2
                t = self.rng.choice(cands) if (cur not in cands or self.rng.random() < 0.3) else cur
        self.trace.append(cands.index(t))
        return t

    def yield_point(self, kind, info=None):
        i = self.me()
        if i is None or self.free_run:
            return
        self.step += 1
        self.where[i] = (kind, info)
        if self.step > STEP_CAP:
            self.free_run = True
            for e in self.events:
                e.set()
            return
        if kind == 'sleep':
            self.sleeping[i] = True
            if sum(1 for j in range(self.n) if self.sleeping[j] and not self.done[j]) >= 2:
                self.windows['two_waiting_on_lock'] += 1
        cands = [j for j in self.runnable() if not self.sleeping[j]]
        if not cands:
            cands = self.runnable()
            self.all_sleep_rounds += 1
            for j in range(self.n):
                self.sleeping[j] = False
            if self.all_sleep_rounds > 200:
                self.deadlock = True
                self.free_run = True
                for e in self.events:
                    e.set()
                return
        t = self.decide(cands, i)
        if t != i:
            for j in range(self.n):
                if j != t:
                    self.sleeping[j] = self.sleeping[j] and j != t
            self.sleeping[t] = False
            if kind != 'sleep':
                # somebody else will run: lock state may change, sleepers may be tried again later
                pass
            self.cur = t
            self.events[i].clear()
            self.events[t].set()
            self.events[i].wait()
        else:
            if kind != 'sleep':
                for j in range(self.n):
                    if j != i:
                        self.sleeping[j] = False

    def finish(self, i):
        self.done[i] = True
        if self.free_run:
            return
        cands = self.runnable()
        if not cands:
            return
        for j in range(self.n):
            self.sleeping[j] = False
        t = self.decide(cands, None)
        self.cur = t
        self.events[t].set()


class ChunkFile:
    """file proxy: every write is split into chunks with a pre-emption point between them; real bytes reach the real file"""

    def __init__(self, real, sched, nchunks, path):
        self._real = real
        self._s = sched
        self._n = max(1, nchunks)
        self._path = path

    def write(self, data):
        n = len(data)
        if n == 0:
            return self._real.write(data)
        k = min(self._n, n)
        step = max(1, n // k)
        pos = 0
        total = 0
        while pos < n:
            end = n if pos + 2 * step > n else pos + step
            total += self._real.write(data[pos:end])
            self._real.flush()
            pos = end
            if pos < n:
                i = self._s.me()
                if i is not None:
                    self._s.windows['preempt_in_save'] += 1
                self._s.yield_point('write', self._path)
        return total

    def __getattr__(self, a):
        return getattr(self._real, a)

    def __enter__(self):
        return self

    def __exit__(self, *a):
        return self._real.__exit__(*a)

    def __iter__(self):
        return iter(self._real)


def make_value(ctype, vid, big):
    if big == 'mixed':
        big = vid % 2 == 0       # serialised lengths differ from one computation to the next
    pad = 9000 if big else 8
    if ctype == 'json':
        return {'id': vid, 'pad': 'x' * pad}
    import numpy as np
    if ctype == 'npy':
        return np.array([vid] * (1 + pad // 8), dtype='int64')
    import pandas as pd
    return pd.DataFrame({'id': [vid] * (1 + pad // 16), 'b': ['y'] * (1 + pad // 16)})


def value_id(ctype, v):
    """-> id of a COMPLETE value, or a description of why it is not one"""
    try:
        if ctype == 'json':
            if isinstance(v, dict) and set(v) == {'id', 'pad'} and set(v['pad']) <= {'x'} and len(v['pad']) in (8, 9000):
                return v['id']
            return {'bad': repr(v)[:80]}
        import numpy as np
        if ctype == 'npy':
            if isinstance(v, np.ndarray) and v.dtype == np.int64 and v.ndim == 1 and len(v) in (2, 1126) and len(set(v.tolist())) == 1:
                return int(v[0])
            return {'bad': repr(v)[:80]}
        import pandas as pd
        if isinstance(v, pd.DataFrame) and list(v.columns) == ['id', 'b'] and len(v) in (1, 563) and v['id'].nunique() == 1 and set(v['b']) == {'y'}:
            return int(v['id'].iloc[0])
        return {'bad': repr(v)[:80]}
    except Exception as e:
        return {'bad': f'{type(e).__name__}: {e}'[:80]}


class SchedEngine(Engine):
    name = 'schedsim'

    def setup_worker(self):
        repo_src = os.path.join(os.environ.get('TCSIM_REPO', '/repo'), 'src')
        sys.path.insert(0, repo_src)
        import warnings
        warnings.filterwarnings('ignore')
        import logging
        import taskchain.cache as tc
        import taskchain.utils.json as tj
        import filelock  # noqa
        assert os.path.realpath(tc.__file__).startswith(os.path.realpath(repo_src))
        tc.logger.setLevel(100)
        tc.logger.handlers.clear()
        logging.getLogger('filelock').setLevel(100)
        return {'tc': tc, 'files': {os.path.realpath(tc.__file__), os.path.realpath(tj.__file__)}}

    def size(self, scn):
        return sum(len(t) for t in scn['threads'])

    def finalize(self, scn, obs):
        scn['choices'] = list(obs['trace'])

    def sample(self, scn, obs):
        return {'ctype': scn['ctype'], 'threads': scn['threads'], 'policy': {k: v for k, v in (scn.get('policy') or {}).items() if not k.startswith('_')},
                'steps': obs.get('steps'), 'calls': obs.get('calls')}

    def generate(self, profile, r, index):
        nt = r.choice([2, 2, 3])
        keys = ['k0'] if r.random() < 0.75 else ['k0', 'k1']
        threads = []
        for t in range(nt):
            calls = []
            for _ in range(r.choice([1, 1, 2, 3])):
                x = r.random()
                if x < 0.3:
                    calls.append({'op': 'get', 'key': r.choice(keys)})
                else:
                    calls.append({'op': 'goc', 'key': r.choice(keys), 'force': r.random() < 0.35})
            threads.append(calls)
        pk = r.choice(['random', 'random', 'pct', 'writer_window', 'writer_window'])
        pol = {'kind': pk, 'seed': r.randrange(10**9)}
        if pk == 'random':
            pol['p'] = r.choice([0.02, 0.05, 0.2, 0.5, 1.0])
        elif pk == 'pct':
            pol['d'] = r.choice([1, 2, 3])
            pol['horizon'] = r.choice([100, 300, 600])
        else:
            writers = [i for i, c in enumerate(threads) if any(x['op'] == 'goc' for x in c)]
            pol['writer'] = r.choice(writers) if writers else 0
            pol['hold'] = r.choice([10, 40, 120, 400])
            if writers and r.random() < 0.7:
                threads[pol['writer']][0] = {'op': 'goc', 'key': 'k0', 'force': True}
        scn = {'engine': 'schedsim', 'ctype': r.choice(['json', 'json', 'npy', 'df']), 'threads': threads, 'policy': pol, 'choices': None,
               'chunks': r.choice([1, 2, 3]), 'big': r.choice([False, False, True, 'mixed', 'mixed']), 'pre': r.random() < 0.6, 'own_cache': r.random() < 0.8,
               # simulated duration of one computation (seconds on the simulated clock that lock timeouts and polls read)
               'compute_s': r.choice([0, 0, 0.3, 15, 45, 300, 4000])}
        import random as _random
        r2 = _random.Random(r.getrandbits(32))
        if scn['ctype'] in ('json', 'df') and r2.random() < 0.3:
            # a forced call whose computer hands back a value the cache refuses before touching the file (None where None is not
            # allowed, something that is no DataFrame): that call fails, the stored entry and everybody else are unaffected
            if scn['ctype'] == 'json':
                scn['ctype'] = 'json_nonone'
            t = r2.randrange(nt)
            threads[t].insert(r2.randint(0, len(threads[t])), {'op': 'goc', 'key': 'k0', 'force': True, 'refuse': True})
        return scn

    # ------------------------------------------------------------------------------------------ execution
    def execute(self, scn, ctx):
        tc = ctx['tc']
        d = tempfile.mkdtemp(prefix='tcsched-', dir='/dev/shm' if os.access('/dev/shm', os.W_OK) else None)
        scn_run = copy.deepcopy(scn)
        sched = Sched(scn_run, len(scn['threads']))
        ctype = scn['ctype']
        cls = {'json': tc.JsonCache, 'npy': tc.NumpyArrayCache, 'df': tc.DataFrameCache, 'json_nonone': lambda d_: tc.JsonCache(d_, allow_nones=False)}[ctype]
        ctype = 'json' if ctype == 'json_nonone' else ctype
        cdir = os.path.join(d, 'c')
        calls = []
        comps = []
        held = []
        counter = [1000]
        files = ctx['files']
        real_open = builtins.open
        real_io_open = io.open
        real_sleep = time.sleep
        real_perf = time.perf_counter
        real_mono = time.monotonic
        simclock = [1000.0]
        prefix = os.path.realpath(cdir)

        def sim_perf():
            # every deadline of the code under test (filelock timeouts) reads the simulated clock
            return simclock[0] if sched.me() is not None else real_perf()

        def sim_mono():
            return simclock[0] if sched.me() is not None else real_mono()

        def sim_open(file, mode='r', *a, **k):
            f = real_open(file, mode, *a, **k)
            try:
                p = os.fspath(file) if not isinstance(file, int) else None
            except TypeError:
                p = None
            if p is not None and sched.me() is not None and isinstance(mode, str) and ('w' in mode or 'a' in mode or '+' in mode) \
                    and os.path.realpath(p).startswith(prefix) and not p.endswith('.lock'):
                i = sched.me()
                sched.marks[i] = 'opened'
                sched.yield_point('opened', os.path.basename(p))
                return ChunkFile(f, sched, scn['chunks'], os.path.basename(p))
            return f

        def sim_sleep(s):
            if sched.me() is None:
                return real_sleep(s)
            simclock[0] += max(0.0, float(s))
            sched.yield_point('sleep')

        def tracer(frame, event, arg):
            if frame.f_code.co_filename in files:
                return local
            return None

        def local(frame, event, arg):
            if event == 'line':
                sched.yield_point('line', frame.f_lineno)
            return local

        # pre-populate
        if scn.get('pre'):
            c0 = cls(cdir)
            comps.append({'vid': 1, 'key': 'k0', 'end': 0, 'thread': -1})
            c0.get_or_compute('k0', lambda: make_value(ctype, 1, scn['big']))
        shared = cls(cdir)

        def client(i):
            sched.tids[threading.get_ident()] = i
            sched.events[i].wait()
            cache = cls(cdir) if scn.get('own_cache', True) else shared
            sys.settrace(tracer)
            try:
                for ci, call in enumerate(scn['threads'][i]):
                    rec = {'thread': i, 'idx': ci, 'op': call['op'], 'key': call['key'], 'force': call.get('force', False), 'invoke': sched.step, 'computed': []}
                    calls.append(rec)

                    if call.get('refuse'):
                        rec['refuse'] = True

                    def computer(rec=rec, call=call):
                        if call.get('refuse'):
                            sched.marks[i] = 'computing'
                            sched.yield_point('compute')
                            return None if scn['ctype'] == 'json_nonone' else {'not': 'a frame'}
                        counter[0] += 1
                        vid = counter[0]
                        comp = {'vid': vid, 'key': call['key'], 'start': sched.step, 'thread': i, 'end': None}
                        comps.append(comp)
                        rec['computed'].append(vid)
                        v = make_value(ctype, vid, scn['big'])
                        sched.marks[i] = 'computing'
                        sched.yield_point('compute')
                        simclock[0] += float(scn.get('compute_s') or 0)
                        sched.yield_point('compute')
                        comp['end'] = sched.step
                        return v
                    try:
                        if call['op'] == 'get':
                            v = cache.get(call['key'])
                        else:
                            v = cache.get_or_compute(call['key'], computer, force=call.get('force', False))
                        rec['ret'] = NOVAL if v is tc.NO_VALUE else value_id(ctype, v)
                        held.append((rec, v))
                    except BaseException as e:
                        rec['exc'] = [type(e).__name__, str(e)[:160]]
                    rec['return'] = sched.step
                    sched.marks[i] = None
            finally:
                sys.settrace(None)
                sched.finish(i)

        ths = [threading.Thread(target=client, args=(i,), daemon=True) for i in range(len(scn['threads']))]
        builtins.open = sim_open
        io.open = sim_open
        time.sleep = sim_sleep
        time.perf_counter = sim_perf
        time.monotonic = sim_mono
        hung = False
        try:
            for t in ths:
                t.start()
            # wait until every client registered its ident
            while len(sched.tids) < len(ths):
                real_sleep(0.0005)
            first = sched.decide(list(range(len(ths))), None)
            sched.cur = first
            sched.events[first].set()
            for t in ths:
                t.join(30)
                if t.is_alive():
                    hung = True
            if hung:
                sched.free_run = True
                for e in sched.events:
                    e.set()
                for t in ths:
                    t.join(5)
        finally:
            builtins.open = real_open
            io.open = real_io_open
            time.sleep = real_sleep
            time.perf_counter = real_perf
            time.monotonic = real_mono
        # a value handed to a caller stays what it was, whatever other callers write afterwards
        for rec, v in held:
            if v is not tc.NO_VALUE:
                rec['ret_end'] = value_id(ctype, v)
        # quiescence: fresh cache object reads every key
        final = {}
        try:
            cq = cls(cdir)
            for key in sorted({c['key'] for t in scn['threads'] for c in t} | ({'k0'} if scn.get('pre') else set())):
                try:
                    v = cq.get(key)
                    final[key] = NOVAL if v is tc.NO_VALUE else value_id(ctype, v)
                except Exception as e:
                    final[key] = {'exc': [type(e).__name__, str(e)[:120]]}
        finally:
            shutil.rmtree(d, ignore_errors=True)
        return {'calls': calls, 'comps': comps, 'final': final, 'steps': sched.step, 'sim_s': round(simclock[0] - 1000.0, 3), 'trace': sched.trace, 'hung': hung,
                'deadlock': sched.deadlock, 'cap': sched.step > STEP_CAP, 'windows': sched.windows}

    # ------------------------------------------------------------------------------------------ oracle
    def judge(self, scn, obs):
        discs = []

        def d(inv, msg, **detail):
            discs.append({'prop': 'C15', 'inv': inv, 'op': None, 'msg': msg, 'detail': detail})

        calls = obs['calls']
        comps = {c['vid']: c for c in obs['comps']}
        if obs['hung'] or obs['deadlock']:
            d('I-progress', 'callers did not all return (deadlock / lost wake-up)', hung=obs['hung'], deadlock=obs['deadlock'])
        incomplete = [c for c in calls if 'return' not in c]
        for c in calls:
            if c.get('refuse'):
                continue      # its own value was refused: it is expected to fail; what it must not do is harm the entry or the others
            if 'exc' in c:
                d('I-no-failure', f'{c["op"]} on {c["key"]} by caller {c["thread"]} failed although no computer raises',
                  exc=c['exc'], call=[c['thread'], c['idx']])
                continue
            r = c.get('ret')
            if r is None:
                continue
            if r == NOVAL:
                if c['op'] == 'goc':
                    d('I-value', 'get_or_compute returned NO_VALUE', call=[c['thread'], c['idx']])
                continue
            if isinstance(r, dict):
                d('I-complete', f'{c["op"]} returned a value that is not the complete result of any computation', got=r, call=[c['thread'], c['idx']])
                continue
            if 'ret_end' in c and c['ret_end'] != r:
                d('I-complete', f'the value returned by {c["op"]} changed under the caller after another caller wrote the entry', at_return=r, at_quiescence=c['ret_end'])
            comp = comps.get(r)
            if comp is None or comp['key'] != c['key']:
                d('I-complete', 'returned value was not produced by a computation for that key', got=r, key=c['key'])
            elif comp.get('end') is None:
                d('I-complete', 'returned value of a computation that never completed', got=r)
            elif comp['thread'] != -1 and comp['start'] > c.get('return', 10**9):
                d('I-complete', 'returned value of a computation that started after the call returned', got=r)
            if c['op'] == 'goc' and c['computed'] and r != c['computed'][-1]:
                d('I-own', 'a call that computed did not return its own result', got=r, computed=c['computed'])
        if obs['cap'] and incomplete:
            d('I-progress', 'step cap reached with calls still running', steps=obs['steps'])
        # no recomputation after a completed call. A non-forced call finds the entry under the lock and loads it outside the
        # lock; it may compute only if a *legitimate* writer started computing after the call was invoked (and before the call
        # itself computes): that writer's save is what the load ran into. Legitimate writers: forced calls; calls to which no
        # entry can have been visible (nothing returned and nobody already computing when they were invoked); and calls
        # excused, recursively, by a legitimate writer (a reader that met a rewrite rewrites itself and the next reader can
        # meet that rewrite).
        def cstart(c):
            return comps[c['computed'][0]]['start'] if c.get('computed') and comps.get(c['computed'][0]) else None

        wr = sorted([c for c in calls if c['op'] == 'goc' and c.get('computed') and 'return' in c and cstart(c) is not None], key=cstart)

        def prior_store(c):
            return any(p is not c and p['key'] == c['key'] and 'return' in p and p['return'] < c['invoke'] and
                       isinstance(p.get('ret'), int) for p in calls) or bool(scn.get('pre') and c['key'] == 'k0')

        legit = {}
        for c in wr:
            if c['force']:
                legit[id(c)] = True
                continue
            visible = prior_store(c) or any(v is not c and v['key'] == c['key'] and cstart(v) < c['invoke'] for v in wr)
            if not visible:
                legit[id(c)] = True
                continue
            legit[id(c)] = any(x is not c and x['key'] == c['key'] and legit.get(id(x)) and c['invoke'] <= cstart(x) < cstart(c) for x in wr)
        for c in wr:
            if not c['force'] and prior_store(c) and not legit[id(c)]:
                d('I-no-recompute', 'call started after another call for the key had returned a stored value, yet recomputed (no legitimate writer began after it was invoked)',
                  call=[c['thread'], c['idx']], invoke=c['invoke'])
        # get that overlaps nobody and comes after a store must see the value
        writers = [c for c in calls if c['op'] == 'goc' and 'return' in c and c['computed']]
        for c in calls:
            if c['op'] != 'get' or c.get('ret') != NOVAL or 'return' not in c:
                continue
            stored_before = (scn.get('pre') and c['key'] == 'k0') or any(w['key'] == c['key'] and w['return'] < c['invoke'] for w in writers)
            overlap = any(w['key'] == c['key'] and not (w['return'] < c['invoke'] or w['invoke'] > c['return']) for w in writers)
            if stored_before and not overlap:
                d('I-get', 'get found nothing although a value was stored and no writer overlapped', call=[c['thread'], c['idx']])
        # quiescence
        if not incomplete:
            for key, fv in obs['final'].items():
                done = [c for c in obs['comps'] if c['key'] == key and c.get('end') is not None]
                if not done:
                    if fv != NOVAL:
                        d('I-quiescence', 'entry exists although no computation completed', key=key, final=fv)
                    continue
                last = max(done, key=lambda c: c['end'])
                if fv != last['vid']:
                    d('I-quiescence', 'at quiescence the stored entry is not the complete result of the last computation saved under the lock',
                      key=key, final=fv, expected=last['vid'])
        w = obs['windows']
        stats = {'fired': {'preemption': 1}, 'steps': obs['steps'], 'sim_s': obs.get('sim_s', 0), 'two_waiting_on_lock': int(w['two_waiting_on_lock'] > 0),
                 'preempt_in_save': int(w['preempt_in_save'] > 0),
                 'reader_recomputed_under_writer': int(any(c['op'] == 'goc' and not c['force'] and c['computed'] and
                                                         ((scn.get('pre') and c['key'] == 'k0')) for c in calls)),
                 'get_saw_nothing_under_writer': int(any(c['op'] == 'get' and c.get('ret') == NOVAL and scn.get('pre') and c['key'] == 'k0' for c in calls))}
        return discs, stats, [V.digest(obs['trace'])[:16]]

    def shrink_candidates(self, scn):
        # drop a call / a thread; replay uses the recorded choice list, which stays meaningful modulo thread count
        for ti in range(len(scn['threads'])):
            if len(scn['threads']) > 2:
                c = copy.deepcopy(scn)
                del c['threads'][ti]
                c['choices'] = None
                yield c
            for ci in range(len(scn['threads'][ti])):
                if len(scn['threads'][ti]) > 1:
                    c = copy.deepcopy(scn)
                    del c['threads'][ti][ci]
                    c['choices'] = None
                    yield c
        for k, v in (('big', False), ('chunks', 1), ('pre', False)):
            if scn.get(k) != v:
                c = copy.deepcopy(scn)
                c[k] = v
                c['choices'] = None
                yield c
