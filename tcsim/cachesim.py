"""cachesim: histories of cache operations (C14) and of `cached` method calls (C16) against a dictionary model, with
failing computers, interrupted/damaged/misdirected cache files and restarts (new cache objects over the same directory).
Runs in-process; the scenario is explicit JSON, the executor draws nothing."""
import copy
import json
import os
import shutil
import sys
import tempfile
import unicodedata
from pathlib import Path

from .core import Engine
from . import values as V

NOVAL = '$NO_VALUE'

KEY_POOL = ['key', 'Key', 'key ', '', ' ', 'a/b', '../x', 'k\x00z', 'café', 'café', 'Å', 'Å', 'Å', 'x' * 300,
            '{"a": 1}', 'k1', 'k2', 'ключ', '键', '\U0001F600', 'a\nb', 'None', '0', 'null']
SUBS = ['a', 'b', 'x.y', 'deep', 'v1 beta', 'v1_beta', 'a b', 'a_b', 'r+d', 'r_d']


def _values_for(ctype, r):
    if ctype in ('json', 'json_nonone', 'mem'):
        v = V.gen_json(r, 0, big=r.random() < 0.05)
        if ctype == 'json_nonone' and v is None:
            v = 0      # what a cache that disallows None does with None is not part of C14's statement
        if ctype == 'mem' and r.random() < 0.15:
            v = None
        if ctype == 'json' and r.random() < 0.1:
            v = None
        return {'json': v}
    if ctype == 'npy':
        return {'seed': r.randrange(10**9), 'kind': 'npy'}
    return {'seed': r.randrange(10**9), 'kind': 'df'}


def realize(spec):
    import random
    if 'json' in spec:
        return spec['json']
    r = random.Random(spec['seed'])
    shift = spec.get('shift', 0)
    if spec['kind'] == 'npy':
        if r.random() < 0.12:
            import numpy as np
            # object arrays (ragged lists, strings mixed with None) are NumpyArrayCache values too (it loads with allow_pickle)
            return np.array([r.choice([None, 'a', 1, 2.5, [1, 2], 'long string ' * r.randint(1, 3)]) for _ in range(r.randint(0, 5))] + [None], dtype=object)
        a = V.gen_array(r, big=r.random() < 0.1)
        if shift:
            # another value of the same dtype and shape (serialises to the same number of bytes)
            import numpy as np
            with np.errstate(all='ignore'):
                if a.dtype.kind in 'iuf':
                    a = np.asarray(a + shift).astype(a.dtype).reshape(a.shape)
                elif a.dtype.kind == 'b':
                    a = np.asarray(~a).astype(a.dtype).reshape(a.shape)
                elif a.ndim >= 1:
                    a = a[::-1].copy()
        return a
    df = V.gen_frame(r, big=r.random() < 0.1)
    if shift:
        import pandas as pd
        for c in list(df.columns):
            try:
                if pd.api.types.is_numeric_dtype(df[c].dtype) and not pd.api.types.is_bool_dtype(df[c].dtype):
                    df[c] = (df[c] + shift).astype(df[c].dtype)
            except Exception:
                pass
    return df


def _samelen_json(v):
    """another JSON value that serialises to the same number of bytes, or None"""
    if isinstance(v, bool) or v is None:
        return None
    if isinstance(v, str) and v.isascii() and len(v) >= 2 and v[::-1] != v:
        return v[::-1]
    if isinstance(v, int) and abs(v) >= 10:
        return v + 1 if v % 10 != 9 else v - 1
    if isinstance(v, list):
        for i, x in enumerate(v):
            y = _samelen_json(x)
            if y is not None:
                return v[:i] + [y] + v[i + 1:]
    if isinstance(v, dict):
        for k_, x in v.items():
            y = _samelen_json(x)
            if y is not None:
                return {**v, k_: y}
    return None


def _retype_json(v):
    """an ==-equal JSON value with other element types (1 -> 1.0, True -> 1, 2.0 -> 2, 0.0 -> -0.0), or None"""
    if isinstance(v, bool):
        return int(v)
    if isinstance(v, int) and abs(v) < 2**52:
        return float(v)
    if isinstance(v, float) and v == 0.0:
        return -v
    if isinstance(v, float) and v.is_integer() and abs(v) < 2**52:
        return int(v)
    if isinstance(v, list):
        for i, x in enumerate(v):
            y = _retype_json(x)
            if y is not None:
                return v[:i] + [y] + v[i + 1:]
    if isinstance(v, dict):
        for k_, x in v.items():
            y = _retype_json(x)
            if y is not None:
                return {**v, k_: y}
    return None


def canon(ctype, v):
    if isinstance(v, str) and v == NOVAL:
        return NOVAL
    if ctype in ('json', 'json_nonone', 'mem'):
        return V.canon_json(v)
    if ctype == 'npy':
        return V.canon_array(v)
    return V.canon_frame(v)


class CacheEngine(Engine):
    name = 'cachesim'

    def setup_worker(self):
        repo_src = os.path.join(os.environ.get('TCSIM_REPO', '/repo'), 'src')
        sys.path.insert(0, repo_src)
        import warnings
        warnings.filterwarnings('ignore')
        import logging
        import taskchain.cache as tc
        assert os.path.realpath(tc.__file__).startswith(os.path.realpath(repo_src))
        tc.logger.setLevel(100)
        tc.logger.handlers.clear()
        logging.getLogger('cache').setLevel(100)
        return {'tc': tc}

    def size(self, scn):
        return len(scn['ops'])

    def canon_obs(self, scn, obs):
        # byte sizes of pickles are not a function of the value (pandas pickles of equal frames differ in length):
        # the observation keeps only whether a damaged file was left intact
        out = []
        for o in obs:
            if isinstance(o, dict) and 'kept' in o:
                o = dict(o)
                o['kept'] = bool(o['kept'][0] == o['kept'][1])
            out.append(o)
        return out

    def sample(self, scn, obs):
        return {'ctype': scn.get('ctype'), 'ops': scn['ops'][:12], 'obs': obs[:12]}

    # ------------------------------------------------------------------------------------------ generation
    def generate(self, profile, r, index):
        if profile == 'c16':
            return self.gen_c16(r)
        ctype = r.choice(['json', 'json', 'json_nonone', 'npy', 'df', 'mem'])
        keys = r.sample(KEY_POOL, r.choice([1, 2, 3, 4]))
        if r.random() < 0.3:
            keys += [k for k in ('café', 'café') if k not in keys]
        paths = [[]] + [[r.choice(SUBS)] for _ in range(r.choice([0, 1, 2]))]
        if r.random() < 0.3:
            paths.append([r.choice(SUBS), r.choice(SUBS)])
        ops = []
        last = {}
        for _ in range(r.randint(3, 14)):
            t = r.random()
            path = r.choice(paths)
            key = r.choice(keys)
            if t < 0.45:
                ops.append({'op': 'goc', 'path': path, 'key': key, 'val': _values_for(ctype, r), 'raise': r.random() < 0.15, 'force': r.random() < 0.2})
                lk = (tuple(path), key)
                prev = last.get(lk)
                u = r.random()
                if prev is not None and u < 0.3:
                    # the value is recomputed and comes out ==-equal with other element types, or as another value of the very same serialised size
                    var = None
                    if 'json' in prev:
                        var = (_retype_json if u < 0.15 else _samelen_json)(prev['json'])
                        var = None if var is None else {'json': var}
                    elif not prev.get('shift'):
                        var = dict(prev, shift=r.randint(1, 5))
                    if var is not None:
                        ops[-1].update(val=var, force=True, **{'raise': False})
                if ctype != 'mem' and r.random() < 0.15 and not ops[-1]['raise'] and not (ctype == 'json_nonone' and ops[-1]['val'].get('json', 0) is None):
                    # the calling process is killed while it writes the entry: after `limit` bytes of the file (a real kill: RLIMIT_FSIZE in a forked caller)
                    ops[-1].update(op='goc_kill', limit=r.choice([0, 1, 9, 20, 33, 64, 100, 128, 150, 400, 5000]))
                if not ops[-1]['raise']:
                    last[lk] = ops[-1]['val']
                if ctype != 'mem' and r.random() < 0.2 and ops[-1]['op'] == 'goc':
                    ops[-1]['scribble'] = True      # the caller changes the returned object in place: the stored value is not the caller's object
            elif t < 0.65:
                ops.append({'op': 'get', 'path': path, 'key': key})
                if ctype != 'mem' and r.random() < 0.2:
                    ops[-1]['scribble'] = True
            elif t < 0.85 and ctype != 'mem':
                mode = r.choice(['truncate', 'truncate', 'truncate', 'empty', 'garbage', 'misdirect', 'remove'])
                op = {'op': 'damage', 'path': path, 'key': key, 'mode': mode, 'frac': r.choice([0.0, 0.01, 0.3, 0.5, 0.9, 0.999]), 'abs': r.choice([None, 1, -1, 7])}
                if mode == 'misdirect':
                    if ctype not in ('json', 'json_nonone'):
                        continue
                    op['src_path'] = r.choice(paths)
                    op['src_key'] = r.choice(keys)
                ops.append(op)
            elif t < 0.93:
                ops.append({'op': 'restart'})
            elif ctype in ('json', 'mem'):
                ops.append({'op': 'goc', 'path': path, 'key': key, 'val': {'json': None}, 'raise': False, 'force': r.random() < 0.5})
        return {'engine': 'cachesim', 'kind': 'c14', 'ctype': ctype, 'ops': ops}

    def gen_c16(self, r):
        nm = r.choice([1, 2, 2, 3])
        methods = []
        pnames = ['a', 'b', 'c', 'd', 'verbose']
        for mi in range(nm):
            npos = r.choice([1, 1, 2, 3])
            nkw = r.choice([0, 0, 1, 2])
            names = pnames[: npos + nkw]
            if r.random() < 0.3 and 'verbose' not in names:
                names = names + ['verbose']
                nkw += 1
            params = []
            seen_default = False
            for i, n in enumerate(names):
                kw = i >= npos
                has_def = r.random() < (0.5 if not kw else 0.75) or (seen_default and not kw)
                if has_def and not kw:
                    seen_default = True
                params.append({'name': n, 'kwonly': kw, 'default': {'v': r.choice([None, 0, 1, True, False, 'x', '', 2.0, [1], {'k': 1}])} if has_def else None})
            ignore = [p['name'] for p in params if (p['name'] == 'verbose' and r.random() < 0.6) or r.random() < 0.1]
            methods.append({'name': r.choice(['m', 'compute', 'load']) + str(mi), 'params': params, 'ignore': ignore,
                            'version': r.choice([None, None, 'v1', '2']), 'source': r.choice(['attr', 'attr', 'deco']),
                            'custom_key': False})
        if nm >= 2 and r.random() < 0.4:
            # same python name under two versions is impossible in one class; same parameter names in two methods is the trap
            methods[1]['params'] = copy.deepcopy(methods[0]['params'])
            methods[1]['ignore'] = list(methods[0]['ignore'])
        shared_deco = False
        import random as _random
        if nm >= 2 and _random.Random('sd:' + json.dumps(methods, sort_keys=True)).random() < 0.3:
            # one decorator object (`versioned = cached(version=...)`) reused for two methods of the class, on the object's own cache
            methods[1].update(ignore=list(methods[0]['ignore']), version=methods[0]['version'], source='attr')
            methods[0]['source'] = 'attr'
            shared_deco = True
        ctype = r.choice(['mem', 'json', 'json'])
        pools = {}
        for m in methods:
            for p in m['params']:
                pools.setdefault(p['name'], [1, True, 1.0, 0, False, None, 'x', '1', [1, 2], {'k': [1], 'a': 2, 'z': {'q': 1, 'b': None}}, 2, 'y', 0.5, -1, {'b': 1, 'a': 2},
                                                {'$float': 'nan'}, {'$float': 'inf'}, {'$float': '-inf'}, 'null', 'NaN'])
        ops = []
        for _ in range(r.randint(3, 16)):
            if r.random() < 0.08:
                ops.append({'op': 'restart'})
                continue
            if ctype != 'mem' and r.random() < 0.06:
                # an interrupted write / damaged entry files between calls (every entry file emptied or truncated)
                ops.append({'op': 'damage_all', 'mode': r.choice(['empty', 'half', 'minus1'])})
                continue
            if r.random() < 0.04:
                # the object gets a fresh cache assigned to its cache attribute (the decorator must look the attribute up per call)
                ops.append({'op': 'newcache', 'obj': r.randrange(2)})
                continue
            mi = r.randrange(nm)
            m = methods[mi]
            binding = {}
            for p in m['params']:
                if p['default'] is not None and r.random() < 0.5:
                    binding[p['name']] = p['default']['v']
                else:
                    binding[p['name']] = r.choice(pools[p['name']][: r.choice([3, 6, 14, 20])])
            pos_params = [p for p in m['params'] if not p['kwonly']]
            # spelling: k positional, rest keyword (random order), defaults spelled or omitted
            k = r.randint(0, len(pos_params))
            pos = [binding[p['name']] for p in pos_params[:k]]
            kw = []
            for p in m['params']:
                if not p['kwonly'] and pos_params.index(p) < k:
                    continue
                if p['default'] is not None and _jeq(binding[p['name']], p['default']['v']) and r.random() < 0.5:
                    continue
                kw.append([p['name'], binding[p['name']]])
            r.shuffle(kw)
            # equal mappings built in another insertion order are the same argument value
            pos = [_reorder(v, r) for v in pos]
            kw = [[k_, _reorder(v, r)] for k_, v in kw]
            # two objects of the class, each with its own cache attribute (and its own state: the result names the object)
            op = {'op': 'call', 'm': mi, 'pos': pos, 'kw': kw, 'binding': binding, 'obj': 0 if r.random() < 0.6 else 1}
            t = r.random()
            if t < 0.12:
                op['force_cache'] = True
            elif t < 0.24:
                op['only_cache'] = True
            elif t < 0.34:
                op['store'] = {'v': r.choice([0, None, 'stored', [1], {'s': 1}])} if ctype != 'json_nonone' else {'v': 'stored'}
                op['force_cache'] = r.random() < 0.3
            ops.append(op)
        return {'engine': 'cachesim', 'kind': 'c16', 'ctype': ctype, 'methods': methods, 'ops': ops, 'shared_deco': shared_deco}

    # ------------------------------------------------------------------------------------------ execution
    def execute(self, scn, ctx):
        d = tempfile.mkdtemp(prefix='tccache-', dir='/dev/shm' if os.access('/dev/shm', os.W_OK) else None)
        try:
            if scn['kind'] == 'c16':
                return self.exec_c16(scn, ctx, Path(d))
            return self.exec_c14(scn, ctx, Path(d))
        finally:
            shutil.rmtree(d, ignore_errors=True)

    def _mk(self, ctx, ctype, d):
        tc = ctx['tc']
        if ctype == 'json':
            return tc.JsonCache(d)
        if ctype == 'json_nonone':
            return tc.JsonCache(d, allow_nones=False)
        if ctype == 'npy':
            return tc.NumpyArrayCache(d)
        if ctype == 'df':
            return tc.DataFrameCache(d)
        return tc.InMemoryCache()

    def exec_c14(self, scn, ctx, d):
        tc = ctx['tc']
        ctype = scn['ctype']
        root = self._mk(ctx, ctype, d / 'c')
        obs = []

        def nav(path):
            c = root
            for s in path:
                c = c.subcache(s)
            return c

        for op in scn['ops']:
            o = {}
            try:
                if op['op'] == 'restart':
                    root = self._mk(ctx, ctype, d / 'c')
                elif op['op'] == 'goc':
                    calls = []

                    def computer(op=op, calls=calls):
                        calls.append(1)
                        if op['raise']:
                            raise RuntimeError('computer failed')
                        return copy.deepcopy(realize(op['val']))     # (the caller may scribble over what it gets back)
                    try:
                        v = nav(op['path']).get_or_compute(op['key'], computer, force=op['force'])
                        o['ret'] = canon(ctype, v)
                        if op.get('scribble'):
                            _scribble(v)
                    except Exception as e:
                        o['exc'] = [type(e).__name__, str(e)[:120]]
                    o['calls'] = len(calls)
                elif op['op'] == 'goc_kill':
                    o.update(_forked_goc(nav(op['path']), op, ctype))
                elif op['op'] == 'get':
                    try:
                        v = nav(op['path']).get(op['key'])
                        o['ret'] = NOVAL if v is tc.NO_VALUE else canon(ctype, v)
                        if op.get('scribble'):
                            _scribble(v)
                    except Exception as e:
                        o['exc'] = [type(e).__name__, str(e)[:120]]
                elif op['op'] == 'damage':
                    c = nav(op['path'])
                    fp = c.filepath(op['key'])
                    o['existed'] = fp.exists()
                    if op['mode'] == 'misdirect':
                        src = nav(op['src_path']).filepath(op['src_key'])
                        o['src_existed'] = src.exists()
                        o['same'] = src == fp
                        if src.exists() and src != fp:
                            shutil.copyfile(src, fp)
                            o['done'] = True
                    elif fp.exists():
                        size = fp.stat().st_size
                        if op['mode'] == 'truncate':
                            n = int(size * op['frac']) if op.get('abs') is None else (size + op['abs'] if op['abs'] < 0 else op['abs'])
                            n = max(0, min(size, n))
                            os.truncate(fp, n)
                            o['kept'] = [n, size]
                        elif op['mode'] == 'empty':
                            os.truncate(fp, 0)
                            o['kept'] = [0, size]
                        elif op['mode'] == 'garbage':
                            fp.write_bytes(b'\x00\xffgarbage{' * 3)
                            o['kept'] = [-1, size]
                        elif op['mode'] == 'remove':
                            fp.unlink()
                            o['kept'] = [-2, size]
            except Exception as e:
                o['harness_exc'] = [type(e).__name__, str(e)[:200]]
            obs.append(o)
        files = sorted(str(p.relative_to(d)) for p in (d / 'c').rglob('*') if p.is_file() and not p.name.endswith('.lock')) if (d / 'c').exists() else []
        obs.append({'files': len(files)})
        return obs

    def exec_c16(self, scn, ctx, d):
        tc = ctx['tc']
        ctype = scn['ctype']
        log = []
        counter = [0]

        def body(name, binding, oid=0):
            counter[0] += 1
            log.append([name, counter[0]])
            # (non-finite floats are outside what a JSON cache stores faithfully: the result names them by their repr)
            return {'m': name, 'n': counter[0], 'o': oid, 'b': {k: (binding[k] if not (isinstance(binding[k], float) and binding[k] != binding[k] or binding[k] in (float('inf'), float('-inf'))) else {'$float': repr(binding[k])}) for k in sorted(binding)}}

        def real(v):
            # scenario files are strict JSON: non-finite floats are written as markers
            if isinstance(v, dict) and set(v) == {'$float'}:
                return float(v['$float'])
            return v

        def build():
            deco_caches = {}
            g = {'cached': tc.cached, '_body': body, 'DECO': deco_caches}
            src = ['class K:', '    def __init__(self, cache, oid=0):', '        self.cache = cache', '        self.oid = oid']
            for mi, m in enumerate(scn['methods']):
                if m['source'] == 'deco':
                    deco_caches[mi] = self._mk(ctx, ctype, d / f'deco{mi}')
                args = []
                if m['source'] == 'deco':
                    args.append(f'DECO[{mi}]')
                if m['ignore']:
                    args.append(f'ignore_kwargs={m["ignore"]!r}')
                if m['version'] is not None:
                    args.append(f'version={m["version"]!r}')
                sig = ['self']
                star = False
                for p in m['params']:
                    if p['kwonly'] and not star:
                        sig.append('*')
                        star = True
                    sig.append(p['name'] if p['default'] is None else f'{p["name"]}={p["default"]["v"]!r}')
                names = [p['name'] for p in m['params']]
                if scn.get('shared_deco') and mi in (0, 1):
                    if mi == 0:
                        g['SHARED'] = tc.cached(**({'ignore_kwargs': m['ignore']} if m['ignore'] else {}), **({'version': m['version']} if m['version'] is not None else {}))
                    src.append('    @SHARED')
                else:
                    src.append(f'    @cached({", ".join(args)})')
                src.append(f'    def {m["name"]}({", ".join(sig)}):')
                src.append(f'        return _body({m["name"]!r}, dict({", ".join(f"{n}={n}" for n in names)}), self.oid)')
            exec('\n'.join(src), g)
            return [g['K'](self._mk(ctx, ctype, d / cachedirs[0]), 0), g['K'](self._mk(ctx, ctype, d / cachedirs[1]), 1)]

        cachedirs = ['own', 'own1']
        objs = build()
        obs = []
        for op in scn['ops']:
            o = {}
            if op['op'] == 'restart':
                objs = build()
                obs.append(o)
                continue
            if op['op'] == 'newcache':
                cachedirs[op['obj']] = f'own{op["obj"]}_{len(obs)}'
                objs[op['obj']].cache = self._mk(ctx, ctype, d / cachedirs[op['obj']])
                obs.append(o)
                continue
            if op['op'] == 'damage_all':
                n = 0
                for fp in d.rglob('*.json'):
                    size = fp.stat().st_size
                    os.truncate(fp, {'empty': 0, 'half': size // 2, 'minus1': max(0, size - 1)}[op['mode']])
                    n += 1
                o['damaged'] = n
                obs.append(o)
                continue
            m = scn['methods'][op['m']]
            kw = {k: real(v) for k, v in op['kw']}
            op = dict(op, pos=[real(v) for v in op['pos']])
            if op.get('force_cache'):
                kw['force_cache'] = True
            if op.get('only_cache'):
                kw['only_cache'] = True
            if 'store' in op:
                kw['store_cache_value'] = op['store']['v']
            before = len(log)
            try:
                v = getattr(objs[op.get('obj', 0)], m['name'])(*op['pos'], **kw)
                o['ret'] = NOVAL if v is tc.NO_VALUE else V.canon_json(v)
            except Exception as e:
                o['exc'] = [type(e).__name__, str(e)[:150]]
            o['execs'] = log[before:]
            obs.append(o)
        own = d / 'own'
        files = sorted(str(p.relative_to(d)) for p in d.rglob('*.json')) if ctype != 'mem' else []
        obs.append({'files': files})
        return obs

    # ------------------------------------------------------------------------------------------ oracle
    def judge(self, scn, obs):
        if scn['kind'] == 'c16':
            return self.judge_c16(scn, obs)
        discs = []
        ctype = scn['ctype']
        fired = {}

        def d(inv, i, msg, **detail):
            discs.append({'prop': 'C14', 'inv': inv, 'op': i, 'msg': msg, 'detail': detail})

        model = {}      # (path tuple, key) -> ('ok', canon) | ('damaged',) | ('foreign', key)
        states = []
        stats = {'hits': 0, 'recomputed_after_damage': 0, 'misdirect_reported': 0, 'raised_computers': 0, 'forced': 0}
        for i, (op, o) in enumerate(zip(scn['ops'], obs)):
            if 'harness_exc' in o:
                raise RuntimeError(f'harness exception in op {i}: {o["harness_exc"]}')
            if op['op'] == 'restart':
                fired['restart'] = fired.get('restart', 0) + 1
                if ctype == 'mem':
                    model.clear()
                continue
            k = (tuple(op['path']), op['key'])
            ent = model.get(k)
            if op['op'] == 'damage':
                if op['mode'] == 'misdirect':
                    if o.get('done'):
                        src = model.get((tuple(op['src_path']), op['src_key']))
                        fired['misdirected_file'] = fired.get('misdirected_file', 0) + 1
                        if src and src[0] in ('maybe', 'unknown'):
                            model[k] = ('unknown',)
                        elif src and src[0] == 'ok':
                            model[k] = ('foreign', op['src_key']) if op['src_key'] != op['key'] else src
                        elif src and src[0] == 'foreign':
                            model[k] = src if src[1] != op['key'] else ('damaged',)   # value unknown to the model: treat as damaged-or-any
                            if src[1] == op['key']:
                                model[k] = ('unknown',)
                        else:
                            model[k] = ('damaged',)
                    continue
                if not o.get('existed'):
                    continue
                kept = o.get('kept')
                if kept is None:
                    continue
                fired['damage_' + op['mode']] = fired.get('damage_' + op['mode'], 0) + 1
                if op['mode'] == 'remove':
                    model.pop(k, None)
                elif op['mode'] == 'truncate' and kept[0] == kept[1]:
                    pass
                else:
                    if ent is not None:
                        model[k] = ('damaged',)
                    else:
                        model[k] = ('damaged',)
                continue
            if op['op'] == 'get':
                if ent is not None and ent[0] == 'maybe':
                    # the writer of this entry was killed while writing it: nothing, the earlier value or the killed writer's value - never anything else
                    if o.get('ret') == NOVAL:
                        pass
                    elif 'ret' in o and o['ret'] in ent[1]:
                        model[k] = ('ok', o['ret'])
                        stats['hits'] += 1
                    else:
                        d('I-get', i, 'get returned a value that neither the earlier complete write nor the interrupted write stored', got=o.get('ret'), exc=o.get('exc'), candidates=ent[1])
                    continue
                if ent is None or ent[0] == 'damaged':
                    if o.get('ret') != NOVAL:
                        d('I-get', i, 'get returned something for a missing or damaged entry', got=o.get('ret'), exc=o.get('exc'), entry=str(ent))
                elif ent[0] == 'foreign':
                    if (o.get('exc') or [None])[0] != 'CacheException':
                        d('I-foreign', i, 'a file recorded for another key was not reported', got=o.get('ret'), exc=o.get('exc'))
                    else:
                        stats['misdirect_reported'] += 1
                elif ent[0] == 'ok':
                    if ctype == 'json_nonone' and ent[1] is None:
                        pass
                    elif o.get('ret') != ent[1]:
                        d('I-get', i, 'get did not return the stored value', got=o.get('ret'), exc=o.get('exc'), expected=ent[1])
                    else:
                        stats['hits'] += 1
                continue
            # get_or_compute
            newv = canon(ctype, realize(op['val']))
            if 'killed' in o:
                fired['writer_killed'] = fired.get('writer_killed', 0) + 1
                stats['writer_killed'] = stats.get('writer_killed', 0) + 1
                if ent is not None and ent[0] in ('unknown', 'foreign'):
                    model[k] = ('unknown',)
                else:
                    alts = [newv]
                    if ent is not None and ent[0] == 'ok':
                        alts.append(ent[1])
                        if ent[1] != newv:
                            stats['killed_over_existing'] = stats.get('killed_over_existing', 0) + 1
                    elif ent is not None and ent[0] == 'maybe':
                        alts += ent[1]
                    model[k] = ('maybe', alts)
                continue
            if ent is not None and ent[0] == 'maybe':
                if o.get('calls') == 0:
                    if 'ret' in o and o['ret'] in ent[1] and not op['force']:
                        model[k] = ('ok', o['ret'])
                        stats['hits'] += 1
                    else:
                        d('I-hit', i, 'a value that neither the earlier complete write nor the interrupted write stored was served without computing',
                          got=o.get('ret'), exc=o.get('exc'), candidates=ent[1], force=op['force'])
                    continue
                ent = ('damaged',)     # it computed: judged like a call that found the entry damaged
            none_rejected = ctype == 'json_nonone' and realize(op['val']) is None
            hit = ent is not None and ent[0] == 'ok' and not op['force']
            if op['force']:
                stats['forced'] += 1
            if ent is not None and ent[0] == 'unknown':
                # (a call that stored nothing - hit on whatever is there, or a raising computer - leaves the entry as unknown as before)
                if 'ret' in o and o['calls'] == 1 and not op['raise']:
                    model[k] = ('ok', newv)
                continue
            if ent is not None and ent[0] == 'foreign' and not op['force']:
                if (o.get('exc') or [None])[0] != 'CacheException' or o['calls'] != 0:
                    d('I-foreign', i, 'a file recorded for another key was not reported', got=o.get('ret'), exc=o.get('exc'), calls=o['calls'])
                else:
                    stats['misdirect_reported'] += 1
                continue
            if hit:
                if ctype == 'json_nonone' and ent[1] is None:
                    continue
                if o['calls'] != 0:
                    d('I-hit', i, 'computer called although an intact value is stored for the key', calls=o['calls'], key=op['key'], path=op['path'])
                if o.get('ret') != ent[1]:
                    d('I-hit', i, 'stored value not returned', got=o.get('ret'), exc=o.get('exc'), expected=ent[1])
                stats['hits'] += 1
                continue
            # miss / damaged / forced: computer exactly once
            if o['calls'] != 1:
                d('I-miss', i, f'computer called {o["calls"]} times on a miss/forced call', entry=str(ent), force=op['force'])
            if ent is not None and ent[0] == 'damaged':
                stats['recomputed_after_damage'] += 1
            if op['raise']:
                stats['raised_computers'] += 1
                fired['computer_raises'] = fired.get('computer_raises', 0) + 1
                if (o.get('exc') or [None])[0] != 'RuntimeError':
                    d('I-raise', i, 'exception of the computer not propagated', got=o.get('ret'), exc=o.get('exc'))
                # stores nothing: entry unchanged
                continue
            if none_rejected:
                if (o.get('exc') or [None])[0] != 'CacheException':
                    d('I-none', i, 'None stored in a cache that does not allow None', got=o.get('ret'), exc=o.get('exc'))
                continue
            if o.get('ret') != newv:
                d('I-miss', i, 'computed value not returned', got=o.get('ret'), exc=o.get('exc'), expected=newv)
            model[k] = ('ok', newv)
            states.append(V.digest(sorted((str(a), b[0]) for a, b in model.items()))[:12])
        stats['fired'] = fired
        return discs, stats, states

    def judge_c16(self, scn, obs):
        discs = []
        ctype = scn['ctype']

        def d(inv, i, msg, **detail):
            discs.append({'prop': 'C16', 'inv': inv, 'op': i, 'msg': msg, 'detail': detail})

        entries = {}
        gen_of = {}
        damaged_any = False
        stats = {'hits_other_spelling': 0, 'forced': 0, 'only_cache': 0, 'stored': 0, 'fired': {}}
        last_spelling = {}
        states = []
        for i, (op, o) in enumerate(zip(scn['ops'], obs)):
            if op['op'] == 'restart':
                stats['fired']['restart'] = stats['fired'].get('restart', 0) + 1
                if ctype == 'mem':
                    entries.clear()
                continue
            if op['op'] == 'damage_all':
                if o.get('damaged'):
                    stats['fired']['damage_all'] = stats['fired'].get('damage_all', 0) + 1
                    entries.clear()      # nothing intact is stored any more: every binding has to be recomputed, never returned damaged
                    damaged_any = True
                continue
            if op['op'] == 'newcache':
                # the object's own cache is a new, empty one from here on (methods cached in a decorator-level cache are unaffected)
                gen_of[op['obj']] = i
                continue
            m = scn['methods'][op['m']]
            binding = {k: v for k, v in op['binding'].items() if k not in m['ignore']}
            oid = op.get('obj', 0)
            scope = (op['m'],) if m['source'] == 'deco' else ('own', oid, gen_of.get(oid, -1), m['name'], m['version'])
            key = (scope, V.digest(V.canon_json(binding)))
            ent = entries.get(key, _MISSING)
            execs = o.get('execs', [])
            spelling = json.dumps([op['pos'], op['kw']], sort_keys=True)
            if 'exc' in o:
                d('I-call', i, 'cached call raised', exc=o['exc'], call=[m['name'], op['pos'], op['kw']])
                continue
            if op.get('only_cache'):
                stats['only_cache'] += 1
                if execs:
                    d('I-only', i, 'only_cache executed the method', execs=execs)
                exp = NOVAL if ent is _MISSING else ent
                if o.get('ret') != exp:
                    d('I-only', i, 'only_cache did not return the cached value / NO_VALUE', got=o.get('ret'), expected=exp, call=[m['name'], op['pos'], op['kw']])
                continue
            force = bool(op.get('force_cache'))
            if ent is not _MISSING and not force:
                if execs:
                    d('I-once', i, 'method executed again for a binding that is cached', call=[m['name'], op['pos'], op['kw']], binding=binding, execs=execs)
                if o.get('ret') != ent:
                    d('I-value', i, 'cached call returned another value than the entry of its binding', got=o.get('ret'), expected=ent, call=[m['name'], op['pos'], op['kw']])
                if last_spelling.get(key) != spelling:
                    stats['hits_other_spelling'] += 1
                continue
            # miss or forced
            if force:
                stats['forced'] += 1
            if 'store' in op:
                stats['stored'] += 1
                if execs:
                    d('I-store', i, 'store_cache_value executed the method', execs=execs)
                val = V.canon_json(op['store']['v'])
            else:
                if len(execs) != 1 or execs[0][0] != m['name']:
                    d('I-once', i, f'method executed {len(execs)} times on a miss/forced call', call=[m['name'], op['pos'], op['kw']], execs=execs)
                    if not execs:
                        continue
                full = {k: op['binding'][k] for k in sorted(op['binding'])}
                val = V.canon_json({'m': m['name'], 'n': execs[-1][1], 'o': oid, 'b': full})
            if o.get('ret') != val:
                d('I-value', i, 'call did not return the value just computed/supplied', got=o.get('ret'), expected=val, call=[m['name'], op['pos'], op['kw']])
            entries[key] = val
            last_spelling[key] = spelling
            states.append(V.digest(sorted(map(str, entries)))[:12])
        files = obs[-1].get('files', [])
        if ctype != 'mem' and not damaged_any:
            if len(files) != len(entries):
                d('I-entries', len(scn['ops']), 'number of cache entries on disk differs from the number of distinct (method, version, binding)', files=len(files), entries=len(entries))
        return discs, stats, states

    # ------------------------------------------------------------------------------------------ shrinking
    def shrink_candidates(self, scn):
        for i in range(len(scn['ops']) - 1, -1, -1):
            c = copy.deepcopy(scn)
            del c['ops'][i]
            yield c
        if scn['kind'] == 'c14':
            for i, op in enumerate(scn['ops']):
                if op.get('path'):
                    c = copy.deepcopy(scn)
                    c['ops'][i]['path'] = []
                    yield c
                if op['op'] == 'goc' and op['val'] != {'json': 1} and 'json' in op['val']:
                    c = copy.deepcopy(scn)
                    c['ops'][i]['val'] = {'json': 1}
                    yield c


def _forked_goc(cache, op, ctype):
    """get_or_compute in a forked caller that the kernel kills (SIGXFSZ) as soon as it writes past `limit` bytes of a file"""
    import resource
    import signal
    rfd, wfd = os.pipe()
    pid = os.fork()
    if pid == 0:
        try:
            os.close(rfd)
            signal.signal(signal.SIGXFSZ, signal.SIG_DFL)
            resource.setrlimit(resource.RLIMIT_FSIZE, (op['limit'], op['limit']))
            calls = []

            def computer():
                calls.append(1)
                return copy.deepcopy(realize(op['val']))
            out = {}
            try:
                v = cache.get_or_compute(op['key'], computer, force=op['force'])
                out['ret'] = canon(ctype, v)
            except Exception as e:
                out['exc'] = [type(e).__name__, str(e)[:120]]
            out['calls'] = len(calls)
            os.write(wfd, json.dumps(out).encode())
        finally:
            os._exit(0)
    os.close(wfd)
    buf = b''
    while True:
        b = os.read(rfd, 1 << 16)
        if not b:
            break
        buf += b
    os.close(rfd)
    _, status = os.waitpid(pid, 0)
    if os.WIFSIGNALED(status):
        return {'killed': os.WTERMSIG(status)}
    if not buf:
        return {'harness_exc': ['ForkedCaller', f'no answer, status {status}']}
    return json.loads(buf)


def _scribble(v):
    """the caller changes the object it was handed, in place"""
    try:
        if isinstance(v, list):
            v.append('scribbled')
        elif isinstance(v, dict):
            v['scribbled'] = 1
        elif isinstance(v, np.ndarray) and v.size and v.flags.writeable:
            v.flat[0] = v.flat[0] + 1 if v.dtype.kind in 'iuf' else v.flat[0]
    except Exception:
        pass


def _reorder(v, r):
    if isinstance(v, dict):
        items = [(k, _reorder(x, r)) for k, x in v.items()]
        r.shuffle(items)
        return dict(items)
    if isinstance(v, list):
        return [_reorder(x, r) for x in v]
    return v


_MISSING = object()


def _jeq(a, b):
    return json.dumps(a, sort_keys=True) == json.dumps(b, sort_keys=True)
