"""
Defect of the UNMODIFIED tree: a task object shared between members of a MultiChain under
different namespaces is re-wired by the later member to that member's task of the *first* namespace.

sub<N>.json:  base (parameter n = N) -> double.   No contexts, two members:
    first :  sub1 as left, sub2 as right
    second:  sub2 as left, sub5 as right
`second.left::double` is the same computation as `first.right::double` (n = 2), so it is that object.
Exit 1 when a member returns another value than its standalone chain, 0 otherwise.
"""
import json
import sys
import tempfile
import warnings
from pathlib import Path

warnings.filterwarnings('ignore')

from taskchain import Config, MultiChain, Parameter, Task  # noqa: E402


class DefectBase(Task):
    class Meta:
        name = 'base'
        parameters = [Parameter('n')]

    def run(self, n) -> int:
        return n


class DefectDouble(Task):
    class Meta:
        name = 'double'
        input_tasks = [DefectBase]

    def run(self, base) -> int:
        return 2 * base


MEMBERS = {'first': (1, 2), 'second': (2, 5)}


def config(base_dir, name):
    left, right = MEMBERS[name]
    uses = [f'{base_dir}/sub{left}.json as left', f'{base_dir}/sub{right}.json as right']
    return Config(base_dir, name=name, data={'uses': uses})


def prepare_dir(path):
    path.mkdir()
    for n in (1, 2, 5):
        json.dump({'tasks': ['__main__.DefectBase', '__main__.DefectDouble'], 'n': n}, (path / f'sub{n}.json').open('w'))
    return path


def main():
    problems = []
    with tempfile.TemporaryDirectory() as tmp:
        multi_dir, alone_dir = prepare_dir(Path(tmp) / 'multi'), prepare_dir(Path(tmp) / 'alone')
        mc = MultiChain([config(multi_dir, name) for name in MEMBERS])

        shared = mc['first']['right::double']
        print('shared object      :', shared is mc['second']['left::double'], '- namespace of its config:', shared.get_config().namespace)
        print('its input is wired to `base` with n =', shared.input_tasks['base'].params.n, '(its hash was built for n = 2)')

        for name in MEMBERS:
            alone = config(alone_dir, name).chain()
            for task_name, task in alone.tasks.items():
                value, expected = mc[name][task_name].value, task.value
                if value != expected:
                    problems.append(f'{name}.{task_name} = {value}, standalone chain gives {expected}')

    for problem in problems:
        print('WRONG VALUE:', problem)
    return 1 if problems else 0


if __name__ == '__main__':
    sys.exit(main())
